"""Developer aid: run a check in-process and print violations grouped by kind (not a check)."""
import collections, json, os, re, sys
sys.path.insert(0, os.path.dirname(os.path.dirname(os.path.abspath(__file__))))
from mc import common
common.bind_repo()
import importlib
pid = sys.argv[1].lower()
mod = importlib.import_module(f"mc.checks.{pid}")
res = common.Result(pid.upper(), mod.LEVEL)
common.Result.violation.__defaults__ = (100000,)
mod.run(res, common.tier())
groups = collections.defaultdict(list)
for v in res.violations:
    k = (":".join(str(v.get("kind")).split(":")[:2]), v.get("sub"), re.sub(r"[0-9]+", "N", str(v.get("why", v.get("observed", "")))[:60]))
    groups[k].append(v)
for k, vs in sorted(groups.items(), key=lambda kv: -len(kv[1])):
    print(len(vs), k)
    for v in vs[: int(os.environ.get("N", "2"))]:
        print("     ", json.dumps(v)[:700])
print("total", len(res.violations), {k: v for k, v in res.cov.items() if not k.startswith("viol_by")})
