"""Regenerates /verif/MANIFEST.json from the table below (developer aid, run by hand)."""
import importlib
import json
import os
import sys

ROOT = os.path.dirname(os.path.dirname(os.path.abspath(__file__)))
sys.path.insert(0, ROOT)

# id -> (level category, technique, level text, level note, design section)
CHECKS = {
    "C02": ("model_checking",
            "bounded-exhaustive enumeration of conditional shapes / predicate trees / operator cases, each run on the real compiler and compared with a reference interpreter",
            "Every conditional shape with <=6 (thorough <=8) predicates x every truth assignment, every boolean tree with <=4 (<=5) atoms in three parenthesisations, every operator x operand form x literal kind x boundary value, and the operator-pair cross product are compiled by the real pipeline and evaluated; each result must equal the reference interpreter's selected return statement or the unroutable error. Complete inside the stated bounds.",
            "Trusted: the ~400-line reference lexer/parser/interpreter in mc/ref (self-checked by round-trip at setup). Not covered: conditionals beyond the size bound.",
            "3/C02"),
}

PENDING_REASON = "no check registered yet in this revision: the engine for it is still being built (see DESIGN.md section 3 for the planned exhaustive exploration)"


def main():
    props = [json.loads(l)["id"] for l in open(os.path.join(ROOT, "properties.jsonl"))]
    checks = []
    for pid in props:
        if pid not in CHECKS:
            continue
        cat, tech, text, note, ref = CHECKS[pid]
        checks.append({
            "property_id": pid,
            "quick_cmd": f"./check {pid} --tier quick",
            "thorough_cmd": f"./check {pid} --tier thorough",
            "evidence_file": f"/verif/evidence/{pid}.json",
            "replay_cmd_template": f"./check {pid} --replay {{path}}",
            "engine": "mc",
            "level_claimed": {"category": cat, "text": text, "design_ref": f"DESIGN.md section {ref}"},
            "level_note": note,
            "technique": tech,
        })
    man = {
        "version": 1,
        "setup_cmd": "/venv/bin/python -m mc.selfcheck",
        "hooks": {
            "guard": "PYAB_VERIF",
            "enable": "none needed: all instrumentation is harness-side (sys.monitoring, attribute wrappers, module-attribute seams); the guard name is reserved and unused",
            "baseline_off_cmd": "cd /repo && /venv/bin/python -m pytest -ra -q -p no:cacheprovider --timeout=900 --continue-on-collection-errors",
            "source_commits": [],
            "add_only": True,
        },
        "engines": [
            {"name": "mc", "path": "/verif/mc", "serves_properties": [c["property_id"] for c in checks],
             "kind_free_text": "hand-written bounded-exhaustive explorers over the real implementation (input-space enumerators, explicit-state BFS over evaluator histories, controlled-scheduler interleaving explorer, process-environment product) with an independent reference model as oracle"},
        ],
        "checks": checks,
        "not_applicable": [{"property_id": p, "reason": PENDING_REASON} for p in props if p not in CHECKS],
        "notes": "See DESIGN.md. Known findings: /verif/known_findings.json. Fixes to /repo are 'fix:' commits listed there.",
    }
    with open(os.path.join(ROOT, "MANIFEST.json"), "w") as f:
        json.dump(man, f, indent=1)
    print("wrote MANIFEST.json with", len(checks), "checks")


if __name__ == "__main__":
    main()
