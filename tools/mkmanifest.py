"""Regenerates /verif/MANIFEST.json from the table below (developer aid, run by hand)."""
import importlib
import json
import os
import sys

ROOT = os.path.dirname(os.path.dirname(os.path.abspath(__file__)))
sys.path.insert(0, ROOT)

# id -> (level category, technique, level text, level note, design section)
MC = "model_checking"
T_E = "bounded-exhaustive enumeration of the input space, every case executed on the real compile-and-evaluate pipeline and compared with an independent reference model"
NOTE = "Trusted: the reference lexer/parser/interpreter/MD5-scheme/exact-Fraction partition in mc/ref (self-checked at setup by round trip, RFC 1321 answers and brute force). "
CHECKS = {
    "C01": (MC, "explicit-state BFS over evaluator histories (real objects, canonical state = model + implementation fingerprint) + exhaustive product of interpreter-process environments",
            "BFS to a fixpoint over new/recompile/call histories on 2 (thorough 3) evaluator slots and 5 texts: every call equals a fresh evaluator and the reference scheme, and every probe table is unchanged after every transition; the same 10k-row assignment transcript is recomputed from text in child interpreters for PYTHONHASHSEED x locale x PYTHONUTF8 x cwd x -O (16 quick / 137 thorough, incl. fast clock, clock offset, decimal context, warnings-as-errors, recursion limit, GC off, junk values for every environment variable the library mentions) and must be identical; deep cyclic recompile histories (period up to 300 / 513 texts), bulk histories (70 000 / 300 000 units, recompile, same units again), ladders of 1..32 (96) consecutive rejected recompiles, stack exhaustion injected at every depth of a compile, fleets of live evaluators with few descriptors, clones made with copy / deepcopy, and ~130 twin / fingerprint-collision pairs (32..48-bit truncations, lossy encodings, normalisations, token kinds, layout) are replayed against the reference scheme.",
            NOTE + "Not covered: other platforms / Python versions, locales not installed.", "3/C01"),
    "C02": (MC, T_E,
            "Every conditional shape with <=6 (thorough <=8) predicates x every truth assignment, every boolean tree with <=4 (<=5) atoms in three parenthesisations, every operator x operand form x literal kind x boundary value, the operator-pair cross product, mixed boolean runs of up to 199 operators with one bracketed sub-expression and guarded comparisons whose early evaluation would raise are compiled by the real pipeline and evaluated; each result must equal the reference interpreter's selected return statement or the unroutable error. Complete inside the stated bounds.",
            NOTE + "Not covered: conditionals beyond the size bound.", "3/C02"),
    "C03": (MC, "exhaustive weight-vector x hash-position grid driven through the compiled experiment via an MD5 seam, exact rational partition as oracle",
            "All vectors of W^n (n<=3, thorough n<=4; W has 10 int/decimal weights from 1e-9 to 1e9 incl. 0) and 115 long-vector families (up to 256 groups) x (extremes, +-3 grid points around every exact boundary, a coarse uniform grid) with the first 32 digest bits substituted, plus real ids; exact equality where binary64 is exact, one grid point of slack elsewhere, zero weights never, wide groups reachable.",
            NOTE + "The seam replaces hashlib.md5 as seen by the binning module (effectiveness measured). Not covered: all 2^32 positions per vector.", "3/C03"),
    "C04": ("exploration", "exhaustive sweep of a finite configuration grid with a chi-square oracle (goodness of fit and independence at 1e-9)",
            "Deterministic id populations (8 families x offsets x salts x weight vectors; 20k ids quick, 200k thorough) through compiled experiments with the DSL salt clause; chi-square GOF per configuration and independence per pair of distinct salts, including every group of salts that a tidying step would identify (edge blanks, case, NFC / NFKC forms, numeric spellings, doubled template escapes).",
            "Statistical oracle: deviations below the 1e-9 critical value are invisible here (C03 decides boundaries exactly). Own regularised-gamma routine checked against scipy values.", "3/C04"),
    "C05": (MC, T_E,
            "Every string of length <=2 (thorough <=3) over a 12-character literal alphabet plus 47 named contents, 17 integers to 1e30 and 22 decimals, in every literal position (group, left/right operand, tuple member, nested member, salt), both quote styles, evaluated on the literal and its minimally different neighbours; tuple literals shaped like the records of the syntax-tree nodes, branch pairs whose labels print alike, comment-looking and near-identical literals recompiled onto one evaluator; branch taken iff Python == on the exact value, returned group equal in value and type.",
            NOTE + "Contents not expressible in the DSL (newline, both quotes) are counted and skipped.", "3/C05"),
    "C06": (MC, "bounded-exhaustive token-level mutation + LR error-cell enumeration + short character strings, each text classified by an independent recogniser and fed to the real entry points",
            "All depth-1 mutations (delete, duplicate, swap, replace by / insert each of 31 lexemes, 21 illegal characters spaced and glued, prefix/suffix junk, concatenated definitions) of 12 (thorough 16) base programs, depth 2 on small bases (thorough), comment delimiters of unusual shape wrapped around stretches of tokens, rejected texts given to recompile() that collide with the current text under crc32 / length+sum or equal it after white-space or case normalisation, every text also after poison texts, every string of <=3 (<=4) characters embedded at three positions and one text per error cell of the implementation's own LR table; a text both readings of the reference reject must make ExperimentEvaluator / parse_source / generate_code fail.",
            NOTE + "Texts the reference finds ambiguous (unterminated / nested comments, non-ASCII outside strings, keyword-glue) are never alarmed on.", "3/C06"),
    "C07": (MC, T_E,
            "48-identifier pool (keyword-prefixed, underscore, upper-case, helper-like names) in every identifier position (singles, ordered pairs, thorough triples), all role patterns of three fields, identifiers and tuples inside tuples to depth 3, one program per size (chains to 60, nesting to 12, 64 groups, 60-atom boolean chains) every still-grammatical token mutant, the sentences written with every ASCII white-space character between the tokens, after poison texts, and in 6 host environments (-O/-OO, -bb, -X dev, DEBUG logging, few descriptors, junk environment); construction must succeed and evaluation end with the reference's group or the unroutable error. Python reserved words / helper names are a recorded known finding with differential attribution.",
            NOTE + "Known findings never hide a different violation: the renamed program must pass.", "3/C07"),
    "C08": (MC, "exhaustive trivia placement (every gap x every trivia item, pairs, two gaps) + side-by-side run of the real two-state lexer and the reference tokenizer on every short lexeme/character string",
            "For 12 (16) base programs every gap x 29 trivia items glued and spaced (thorough: all ordered pairs of items, two gaps at once), whitespace reshaping inside `else if` / `not in`; AST equality with the base and equal evaluator outcomes, also after poison texts (unterminated comments, errors) and when recompiled onto an evaluator that holds a layout twin; 177k lexeme sequences (n<=5; thorough n<=6) and all character strings of length <=3 (<=4) compared token by token.",
            NOTE + "Nested / unterminated block comments are outside the property and skipped.", "3/C08"),
    "C09": (MC, "exhaustive metamorphic pairs over base programs x ids x transformations, differential oracle on the real evaluators",
            "56 base programs (all shapes with <=3 predicates with multi-group returns, 1-4 splitters, salts) x ~250 ids (realistic, crc32-colliding, near-twins under strip / case / NFC / NFKC / numeric spelling, tuples / lists / dicts / bytes / Fractions; thorough: every string <=3 over 14 hostile characters) x {every undeclared keyword argument x value, rename, every splitter permutation, every call keyword order, every pair of inputs routed to the same return, each declared field omitted, other salt}.",
            "Differential: no hand-written expectation except that an omitted field must raise and that groups vary across ids and salts.", "3/C09"),
    "C10": (MC, "exhaustive weight-vector x unit table; oracle = non-empty intersection of exact position intervals per unit (implies monotonicity for every ordered pair of explored vectors)",
            "Every unit of the id set is evaluated under all 1.2k (thorough 11k) weight vectors, relabelled and repeated-label groups (same entry whatever the labels), families up to 256 groups and every return statement of all multi-return shapes with <=3 predicates; all observed groups of one unit must be explained by one hash position, the published one; two-group ramps are also compared pairwise.",
            NOTE + "One grid point of slack per boundary.", "3/C10"),
    "C11": (MC, "explicit-state BFS over evaluator histories executed on real objects, canonical-state deduplication, invariant evaluated in every state",
            "new / recompile / call over 2 (3) slots and 7 texts (same name other weights, other trivia, other fields; lexically, syntactically and compile-time invalid), BFS until no new (model, implementation-fingerprint) state appears; after every transition every evaluator is probed on every input against a fresh evaluator of its last accepted text, every construction/recompile is re-issued (raise again / no-op). Plus: deep cyclic and bulk histories, 60+ twin pairs (texts a normalising or weak change detector / parse cache would confuse: crc32, md5-prefix, sha, adler32, FNV, length+sum collisions; differences only inside comment-looking regions, blanks, case, quote style, NFC form of a literal) recompiled on one evaluator with the reference model as oracle; replays fall back to forked children of a pristine process image when the library keeps module-level state.",
            "Acceptance of a text is what a fresh constructor does with it; hidden module-level state is part of the state key (measured).", "3/C11"),
    "C12": (MC, T_E,
            "27 salts x 70 declaration orders x all values of the E-val alphabet (incl. tuples, lists, dicts, bytes, Fractions) x 4 weight vectors, the complete value families of mc/deepvals.py (all 1 112 064 Unicode scalar values, all strings <=3 over 14 hostile characters, int / float / length ladders; thorough x 3 salts x single / first / last splitter), all ordered pairs of a 70-value alphabet as two splitters, a host whose OpenSSL refuses MD5, plus 10k known answers of the position function, against md5/UTF-8/sorted-names/first-32-bits recomputed independently and the exact partition.",
            NOTE + "Alphabetical order is decided on lower-case ASCII names only.", "3/C12"),
    "C13": (MC, "bounded-exhaustive adversarial literal substitution; oracle = masked Python AST identity, constant equality, no new callee (sys.setprofile) while evaluating, sentinel never called",
            "Every string of length <=3 (thorough <=4) over a 14-character adversarial alphabet plus ~200 payloads (referencing a sentinel planted in builtins; the literal's own delimiter spelled as character reference / URL / MIME / UTF-7 / foreign escape; strings harvested from the generator's own source; long literals with an escape-needing character at every offset) in 7 literal positions, also after poison texts, x both quote styles x both code layouts.",
            "Contents not expressible in the DSL are skipped.", "3/C13"),
    "C14": (MC, T_E,
            "All shapes with <=4 (<=6) predicates, all operator cases, identifier singles, nested tuples, role patterns, size family and weighted/salted programs x both layouts of generate_code: text executed stand-alone in a bare and in a module-like namespace (and, for a handful of programs and huge-int inputs, in a fresh interpreter that imported nothing else), callable named after the experiment, one evaluator recompiled through chains of token-kind / operator / layout twins compared with the module text of every step, same outcome as ExperimentEvaluator(text) and the reference on every enumerated input.",
            NOTE, "3/C14"),
    "C15": (MC, T_E,
            "Every value of the E-val alphabet (str incl. non-ASCII/NUL/quotes/1e4 and 1e6 chars, ints to 10^4000, special floats, bool, None) as splitter, co-splitter and extra field x 27 salts x 3 weight vectors; the complete value families of mc/deepvals.py (every Unicode scalar value as a one-character id, every string <=3 over 14 hostile characters, int / float / length ladders incl. values next to 10^4298) and every code point of a range (thorough: the whole BMP) as a salt character; the reference scheme's group is returned and same-str values share the bucket.",
            NOTE + "Lone surrogates and ints beyond CPython's str() digit limit are outside the property's list.", "3/C15"),
    "C16": (MC, "exhaustive argument-space enumeration of the public choice function incl. enumerated environment answers of the random source and the MD5 seam",
            "40 ids x list/tuple populations of mixed values (n in 1..64) x 1.2k (11k) weight vectors and their cumulative forms, boundary positions through the MD5 seam, extreme totals (1e-300 .. 2e307), weights that are ints beyond 2^53 / Fractions / bools, all malformed combinations incl. every empty-sequence case, 6 host environments, the id-less branch with every boundary answer of random.random().",
            "Seams: hashlib.md5 as seen by the binning module and random.random (effectiveness measured).", "3/C16"),
    "C17": (MC, "stateless exploration of thread interleavings of the real code under a controlled scheduler (sys.monitoring LINE/INSTRUCTION points + attribute hooks), preemption-bounded DFS, linearizability by brute force",
            "Harnesses H1 (2-3 threads construct different texts, two with the same experiment name, sources with block comments), H2 (recompile vs calls), H3 (two recompiles of the same text then calls), H4 (recompiles of different texts); all interleavings of shared-evaluator accesses, and preemption bound 2 (thorough 3) at line points of the evaluator / wrapper modules; H5 (concurrent evaluation), H6_W (W sources compiled first: bounded caches), H7 (a recompile refused after parsing vs. a recompile in another thread; deadlock detection), H1n (two sources nested deeper than anything compiled before, line points in the generator and the models), H5w (two evaluators with different weight vectors evaluated at once), timed lock waits whose expiry is an explored environment answer, every single preemption between two bytecodes of the evaluator modules, function-entry points and every single preemption between two lines inside the vendored lexer / parser / models / generator always on (tiny texts), sequential epilogue after H4; thread-confinement of lexer/parser/codegen instances and module/class-level state are measured and break into an escalated exploration (line or strided function-entry points inside SLY, every schedule in a forked child of a pristine image); real Lock/RLock objects are replaced by scheduler-aware ones; the explorer is calibrated against TLC (thorough).",
            "GIL: one bytecode is atomic; C-level state invisible. Not covered: >3 threads, free-threaded builds.", "3/C17"),
    "C18": ("exploration", "exhaustive sweep of a finite numeric grid with independent textbook formulas and statistics.NormalDist as oracle",
            "n (38 values to 1e9) x p (41) x confidence (25, 1e-6..1-1e-12) x both methods; alpha on a dyadic grid of 2^15 (2^19) points plus the decades to 1e-300: non-integer n, every call spelling x a value set shared by p and confidence executed forwards and backwards in one process, two threads at different confidence levels under the controlled scheduler: lower<=upper, textbook equality, monotone in n and confidence, z symmetric and never below the true quantile, unknown method refused.",
            "Tolerances derived from conditioning near alpha=1/2 (4 eps sqrt(pi/8) absolute).", "3/C18"),
}

PENDING_REASON = "no check registered yet in this revision: the engine for it is still being built (see DESIGN.md section 3 for the planned exhaustive exploration)"


def main():
    props = [json.loads(l)["id"] for l in open(os.path.join(ROOT, "properties.jsonl"))]
    checks = []
    for pid in props:
        if pid not in CHECKS:
            continue
        cat, tech, text, note, ref = CHECKS[pid]
        checks.append({
            "property_id": pid,
            "quick_cmd": f"./check {pid} --tier quick",
            "thorough_cmd": f"./check {pid} --tier thorough",
            "evidence_file": f"/verif/evidence/{pid}.json",
            "replay_cmd_template": f"./check {pid} --replay {{path}}",
            "engine": "mc",
            "level_claimed": {"category": cat, "text": text, "design_ref": f"DESIGN.md section {ref}"},
            "level_note": note,
            "technique": tech,
        })
    man = {
        "version": 1,
        "setup_cmd": "/venv/bin/python -m mc.selfcheck",
        "hooks": {
            "guard": "PYAB_VERIF",
            "enable": "none needed: all instrumentation is harness-side (sys.monitoring, attribute wrappers, module-attribute seams); the guard name is reserved and unused",
            "baseline_off_cmd": "cd /repo && /venv/bin/python -m pytest -ra -q -p no:cacheprovider --timeout=900 --continue-on-collection-errors",
            "source_commits": [],
            "add_only": True,
        },
        "engines": [
            {"name": "mc", "path": "/verif/mc", "serves_properties": [c["property_id"] for c in checks],
             "kind_free_text": "hand-written bounded-exhaustive explorers over the real implementation (input-space enumerators, explicit-state BFS over evaluator histories, controlled-scheduler interleaving explorer, process-environment product) with an independent reference model as oracle"},
        ],
        "checks": checks,
        "not_applicable": [{"property_id": p, "reason": PENDING_REASON} for p in props if p not in CHECKS],
        "notes": "See DESIGN.md. Known findings: /verif/known_findings.json. Fixes to /repo are 'fix:' commits listed there.",
    }
    with open(os.path.join(ROOT, "MANIFEST.json"), "w") as f:
        json.dump(man, f, indent=1)
    print("wrote MANIFEST.json with", len(checks), "checks")


if __name__ == "__main__":
    main()
