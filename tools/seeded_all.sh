#!/bin/sh
# developer aid: (re)build /verif/seeded from the sub-agents' outputs: confirm every change and run its own check plus the related ones
# usage: tools/seeded_all.sh <dir with out_CNN directories> [parallel jobs]
cd "$(dirname "$0")/.." || exit 2
SRC=${1:-/tmp/wt}
J=${2:-3}
for d in "$SRC"/out_C*; do
  id=$(basename "$d" | sed 's/out_//')
  for f in "$d"/change?.diff; do
    [ -f "$f" ] || continue
    l=$(basename "$f" .diff | sed 's/change//')
    echo "$d $l $id"
  done
done | xargs -P "$J" -L 1 sh -c 'tools/seeded.py $0 $1 $2 --checks SMART --keep-as ${2}_$1 2>&1 | grep -E "CONFIRMED|CAUGHT|silent|FAULT|PATCH" | sed "s/^/$2_$1 /" | cut -c1-200'
