#!/bin/sh
# developer aid: every benign refactor must leave the repo's tests green AND every quick check silent
cd "$(dirname "$0")/.." || exit 2
for p in benign/*.diff mutants/benign_lock.diff; do
  echo "## $p"
  tools/mutant.py $p --tests C01 C02 C03 C04 C05 C06 C07 C08 C09 C10 C11 C12 C13 C14 C15 C16 C17 C18 2>&1 | grep -E "repo tests|exit=[12]|UNREAL|PATCH|HARNESS" | cut -c1-200
done
