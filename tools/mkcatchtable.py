"""Developer aid: tabulate /verif/seeded/*/meta.json into seeded/RESULTS.md"""
import glob, json, os
ROOT = os.path.dirname(os.path.dirname(os.path.abspath(__file__)))
rows = []
for f in sorted(glob.glob(os.path.join(ROOT, "seeded", "*", "meta.json"))):
    m = json.load(open(f))
    name = os.path.basename(os.path.dirname(f))
    ran = sorted(m.get("checks", {}))
    caught = m.get("caught_by", [])
    tgt = m["property"]
    notes = os.path.join(os.path.dirname(f), "agent_notes.md")
    summ = ""
    if os.path.exists(notes):
        txt = open(notes, errors="replace").read()
        letter = name.split("_")[-1]
        import re
        mm = re.search(r"(?im)^#+\s*(?:change\s*)?" + letter + r"\b[^\n]*", txt) or re.search(r"(?im)^\**\s*change\s*" + letter + r"\b[^\n]*", txt)
        summ = (mm.group(0).strip("#* ").strip() if mm else "")[:160]
    rows.append((name, tgt, "yes" if tgt in caught else "NO", " ".join(caught) or "-", len(ran), "", summ))
with open(os.path.join(ROOT, "seeded", "RESULTS.md"), "w") as out:
    out.write("# Seeded changes written by independent sub-agents (each confirmed: repo tests pass, demo fails with / passes without)\n\n")
    out.write("| change | breaks | caught by its property's check | all quick checks that report a VIOLATION | checks run | what it is / what it needs to manifest |\n|---|---|---|---|---|---|\n")
    for r in rows:
        out.write(f"| {r[0]} | {r[1]} | {r[2]} | {r[3]} | {r[4]} | {r[6]} {('— needs: ' + r[5]) if r[5] else ''} |\n")
print(f"{len(rows)} seeded changes; target check catches {sum(1 for r in rows if r[2]=='yes')}")
