"""Developer aid (run once): birthday pairs of experiment texts colliding under common 32-bit
fingerprints -> tools/collision_pairs.json.  Every pair is re-verified by mc/checks/c11 at run time."""
import json, os, sys
from concurrent.futures import ProcessPoolExecutor
ROOT = os.path.dirname(os.path.dirname(os.path.abspath(__file__)))
sys.path.insert(0, ROOT)
from mc.enum import collide

VALID = 'def exp { splitters: uid return "V1" weighted 1, "V2" weighted 1 }'
OTHERS = {"valid": 'def exp { splitters: uid return "W1" weighted 1, "W2" weighted 3 }', "badsyn": 'def exp { splitters: uid return "S1" weighted }',
          "badlex": 'def exp { splitters: uid return "L1" weighted 1 ; }'}

def one(args):
    fname, oname = args
    fp = collide._fingerprints()[fname]
    return fname, oname, collide.birthday_pair(fp, VALID, OTHERS[oname], 1500000)

if __name__ == "__main__":
    jobs = [(f, o) for f in collide._fingerprints() for o in OTHERS]
    out = {}
    with ProcessPoolExecutor(8) as ex:
        for fname, oname, p in ex.map(one, jobs):
            if p:
                out[f"{fname}/{oname}"] = list(p)
    json.dump({"_comment": "pairs (current valid text, other text) with equal 32-bit fingerprint; found by birthday search over a trailing comment tag", "pairs": out},
              open(os.path.join(ROOT, "tools", "collision_pairs.json"), "w"), indent=1)
    print(len(out), "pairs of", len(jobs))
