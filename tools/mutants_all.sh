#!/bin/sh
# developer aid: run every hand-written mutant against the checks named in mutants/TARGETS
cd "$(dirname "$0")/.." || exit 2
while read patch checks; do
  [ -z "$patch" ] && continue
  echo "## $patch -> $checks"
  tools/mutant.py mutants/$patch --tests $checks 2>&1 | cut -c1-260
done < mutants/TARGETS
