#!/venv/bin/python
"""Confirm a sub-agent's seeded change and run the checks against it (scratch copy, removed after).

usage: tools/seeded.py <out_dir> <A|B> <PROPERTY-ID> [--checks C01,C02|ALL] [--keep-as NAME]
  1. copies /repo to a scratch dir, runs the demo WITHOUT the change (must pass),
  2. applies the change, runs the repository's own tests (must pass), runs the demo (must fail),
  3. runs the named quick checks with PYAB_REPO=<scratch>; prints which report a VIOLATION,
  4. with --keep-as: writes /verif/seeded/<NAME>/{patch.diff,demo.py,meta.json}.
"""
import json, os, shutil, subprocess, sys, tempfile, time

VERIF = os.path.dirname(os.path.dirname(os.path.abspath(__file__)))
ALL = [f"C{i:02d}" for i in range(1, 19)]
# checks whose anchors overlap with the property's (the ones a change written for it is most likely to trip as well)
RELATED = {"C01": ["C11", "C12", "C09"], "C02": ["C14", "C05", "C07"], "C03": ["C16", "C10", "C12"], "C04": ["C03", "C12", "C09"], "C05": ["C02", "C14", "C13"],
           "C06": ["C07", "C08", "C11"], "C07": ["C06", "C02", "C14"], "C08": ["C06", "C07"], "C09": ["C12", "C01", "C15"], "C10": ["C03", "C12", "C11"],
           "C11": ["C01", "C17", "C06"], "C12": ["C15", "C09", "C03"], "C13": ["C05", "C14"], "C14": ["C02", "C13"], "C15": ["C12", "C09"], "C16": ["C03", "C10"],
           "C17": ["C11", "C01"], "C18": []}  # fmt: skip


def sh(cmd, cwd, env, timeout=1800):
    try:
        p = subprocess.run(cmd, cwd=cwd, env=env, capture_output=True, text=True, timeout=timeout)
    except subprocess.TimeoutExpired:
        return 2, f"TIMEOUT after {timeout}s"
    return p.returncode, (p.stdout + p.stderr)


def main():
    a = sys.argv[1:]
    out_dir, letter, pid = a[0], a[1], a[2]
    checks = [pid]
    keep = None
    smart = False
    if "--checks" in a:
        v = a[a.index("--checks") + 1]
        checks = ALL if v == "ALL" else ([pid] + RELATED[pid] if v == "RELATED" else ([pid] if v == "SMART" else v.split(",")))
        smart = v == "SMART"
    if "--keep-as" in a:
        keep = a[a.index("--keep-as") + 1]
    patch = os.path.join(out_dir, f"change{letter}.diff")
    demo = os.path.join(out_dir, f"demo{letter}.py")
    tmp = tempfile.mkdtemp(prefix="pyab_seed_")
    meta = {"property": pid, "source": f"sub-agent output {out_dir} change {letter}", "ran": []}
    try:
        dst = os.path.join(tmp, "repo")
        shutil.copytree("/repo", dst, ignore=shutil.ignore_patterns(".git", "__pycache__", ".pytest_cache"))
        env = dict(os.environ, PYAB_REPO=dst, PYTHONPATH=os.path.join(dst, "src"), PYTHONDONTWRITEBYTECODE="1")
        demo_src = open(demo).read()
        # demos sometimes hard-code the agent's worktree path: retarget to the scratch copy
        for i in range(1, 19):
            demo_src = demo_src.replace(f"/tmp/wt/C{i:02d}", dst)
        demo_local = os.path.join(tmp, "demo.py")
        open(demo_local, "w").write(demo_src)
        helpers = [f for f in os.listdir(out_dir) if f.endswith(".py") and not f.startswith("demo")]
        for h in helpers:  # helper modules the demo imports
            shutil.copy(os.path.join(out_dir, h), os.path.join(tmp, h))
        is_pytest = "def test_" in demo_src and "__main__" not in demo_src
        demo_cmd = ["/venv/bin/python", "-m", "pytest", "-q", "-p", "no:cacheprovider", demo_local] if is_pytest else ["/venv/bin/python", demo_local]
        rc0, o0 = sh(demo_cmd, dst, env)
        print(f"demo without change: rc={rc0}")
        meta["ran"].append({"cmd": "demo on clean tree", "rc": rc0})
        r = subprocess.run(["patch", "-p1", "-s", "-d", dst, "-i", os.path.abspath(patch)], capture_output=True, text=True)
        if r.returncode != 0:
            print("PATCH FAILED", r.stdout, r.stderr)
            return 2
        rct, ot = sh(["/venv/bin/python", "-m", "pytest", "-q", "-p", "no:cacheprovider", "-n", "8"], dst, env)
        last = ot.strip().splitlines()[-1] if ot.strip() else ""
        print(f"repo tests with change: rc={rct} {last}")
        meta["ran"].append({"cmd": "repository test suite with the change", "rc": rct, "summary": last})
        rc1, o1 = sh(demo_cmd, dst, env)
        print(f"demo with change: rc={rc1}  {o1.strip().splitlines()[-1][:160] if o1.strip() else ''}")
        meta["ran"].append({"cmd": "demo with the change", "rc": rc1})
        confirmed = rc0 == 0 and rct == 0 and rc1 != 0
        print("CONFIRMED" if confirmed else "NOT CONFIRMED")
        caught = {}
        queue = list(checks)
        while queue:
            c = queue.pop(0)
            t0 = time.time()
            rc, o = sh([os.path.join(VERIF, "check"), c, "--tier", "quick"], VERIF, env)
            viol = [l for l in o.splitlines() if l.startswith("VIOLATION")]
            first = next((l.strip()[:260] for l in o.splitlines() if l.startswith("  {")), "")
            caught[c] = {"rc": rc, "violations_printed": len(viol), "first": first, "wall_s": round(time.time() - t0, 1)}
            flag = "CAUGHT" if rc == 1 and viol else ("FAULT" if rc == 2 else "silent")
            print(f"  {c}: {flag} rc={rc} {first[:200]}")
            if rc == 2:
                print(o[-800:])
            if smart and c == pid and not (rc == 1 and viol):
                # the property's own check is silent: find out which check does catch it (related ones first, then all others)
                queue = RELATED[pid] + [x for x in ALL if x != pid and x not in RELATED[pid]]
            elif smart and c != pid and rc == 1 and viol:
                queue = []
        meta["checks"] = caught
        meta["caught_by"] = [c for c, v in caught.items() if v["rc"] == 1 and v["violations_printed"]]
        meta["confirmed"] = confirmed
        if keep and confirmed:
            d = os.path.join(VERIF, "seeded", keep)
            os.makedirs(d, exist_ok=True)
            shutil.copy(patch, os.path.join(d, "patch.diff"))
            shutil.copy(demo, os.path.join(d, "demo.py"))
            for h in helpers:
                shutil.copy(os.path.join(out_dir, h), os.path.join(d, h))
            notes = os.path.join(out_dir, {"A": "notes.md", "B": "notes.md", "C": "notes2.md", "D": "notes2.md", "E": "notes3.md", "F": "notes3.md", "G": "notes4.md", "H": "notes4.md", "I": "notes4.md"}.get(letter, "notes5.md"))
            old_meta_needs = f"see agent_notes.md (section on change {letter})"
            if os.path.exists(notes):
                shutil.copy(notes, os.path.join(d, "agent_notes.md"))
            meta_path = os.path.join(d, "meta.json")
            old = json.load(open(meta_path)) if os.path.exists(meta_path) else {}
            old.update(meta)
            old.setdefault("needs", old_meta_needs)
            old["what_was_run"] = "tools/seeded.py: demo on a clean copy (passes), repository test suite with the change (passes), demo with the change (fails), then the listed quick checks with PYAB_REPO pointing at the patched copy"
            json.dump(old, open(meta_path, "w"), indent=1)
            print("kept as", d)
        return 0 if confirmed else 1
    finally:
        shutil.rmtree(tmp, ignore_errors=True)


if __name__ == "__main__":
    sys.exit(main())
