/* Finds unit ids "w<n>" whose MD5 digest starts with one of the given 32-bit prefixes.
 * usage: md5_witness <threads> <max_n> <k1> <k2> ...   (k in decimal; prints "k n" per hit)
 * Self-contained MD5 (RFC 1321) for messages shorter than 56 bytes.  Used once to build
 * tools/witnesses.json; every witness is re-verified with hashlib on every run of C03. */
#include <pthread.h>
#include <stdint.h>
#include <stdio.h>
#include <stdlib.h>
#include <string.h>

static const uint32_t K[64] = {
0xd76aa478,0xe8c7b756,0x242070db,0xc1bdceee,0xf57c0faf,0x4787c62a,0xa8304613,0xfd469501,
0x698098d8,0x8b44f7af,0xffff5bb1,0x895cd7be,0x6b901122,0xfd987193,0xa679438e,0x49b40821,
0xf61e2562,0xc040b340,0x265e5a51,0xe9b6c7aa,0xd62f105d,0x02441453,0xd8a1e681,0xe7d3fbc8,
0x21e1cde6,0xc33707d6,0xf4d50d87,0x455a14ed,0xa9e3e905,0xfcefa3f8,0x676f02d9,0x8d2a4c8a,
0xfffa3942,0x8771f681,0x6d9d6122,0xfde5380c,0xa4beea44,0x4bdecfa9,0xf6bb4b60,0xbebfbc70,
0x289b7ec6,0xeaa127fa,0xd4ef3085,0x04881d05,0xd9d4d039,0xe6db99e5,0x1fa27cf8,0xc4ac5665,
0xf4292244,0x432aff97,0xab9423a7,0xfc93a039,0x655b59c3,0x8f0ccc92,0xffeff47d,0x85845dd1,
0x6fa87e4f,0xfe2ce6e0,0xa3014314,0x4e0811a1,0xf7537e82,0xbd3af235,0x2ad7d2bb,0xeb86d391};
static const int S[64] = {7,12,17,22,7,12,17,22,7,12,17,22,7,12,17,22,5,9,14,20,5,9,14,20,5,9,14,20,5,9,14,20,
4,11,16,23,4,11,16,23,4,11,16,23,4,11,16,23,6,10,15,21,6,10,15,21,6,10,15,21,6,10,15,21};
#define ROL(x,c) (((x)<<(c))|((x)>>(32-(c))))

static uint32_t md5_first(const unsigned char *msg, int len) {
  unsigned char blk[64];
  memset(blk, 0, 64);
  memcpy(blk, msg, len);
  blk[len] = 0x80;
  uint64_t bits = (uint64_t)len * 8;
  memcpy(blk + 56, &bits, 8);
  uint32_t M[16];
  memcpy(M, blk, 64);
  uint32_t a = 0x67452301, b = 0xefcdab89, c = 0x98badcfe, d = 0x10325476;
  for (int i = 0; i < 64; i++) {
    uint32_t f; int g;
    if (i < 16) { f = (b & c) | (~b & d); g = i; }
    else if (i < 32) { f = (d & b) | (~d & c); g = (5 * i + 1) & 15; }
    else if (i < 48) { f = b ^ c ^ d; g = (3 * i + 5) & 15; }
    else { f = c ^ (b | ~d); g = (7 * i) & 15; }
    uint32_t t = d; d = c; c = b;
    b = b + ROL(a + f + K[i] + M[g], S[i]);
    a = t;
  }
  a += 0x67452301;
  return __builtin_bswap32(a); /* first 4 digest bytes as a big-endian integer */
}

static int nt; static uint32_t *targets; static uint64_t maxn; static int nthreads;
static pthread_mutex_t mu = PTHREAD_MUTEX_INITIALIZER;

static void *work(void *arg) {
  long id = (long)arg;
  char buf[32];
  for (uint64_t n = id; n < maxn; n += nthreads) {
    int len = snprintf(buf, sizeof buf, "w%llu", (unsigned long long)n);
    uint32_t k = md5_first((unsigned char *)buf, len);
    for (int j = 0; j < nt; j++)
      if (targets[j] == k) {
        pthread_mutex_lock(&mu);
        printf("%u %llu\n", k, (unsigned long long)n);
        fflush(stdout);
        pthread_mutex_unlock(&mu);
      }
  }
  return 0;
}

int main(int argc, char **argv) {
  if (argc < 4) return 2;
  nthreads = atoi(argv[1]);
  maxn = strtoull(argv[2], 0, 10);
  nt = argc - 3;
  targets = malloc(sizeof(uint32_t) * nt);
  for (int i = 0; i < nt; i++) targets[i] = (uint32_t)strtoull(argv[3 + i], 0, 10);
  /* self test: md5("abc") = 900150983cd24fb0... */
  if (md5_first((const unsigned char *)"abc", 3) != 0x90015098u) { fprintf(stderr, "md5 self-test failed\n"); return 3; }
  pthread_t th[64];
  for (long i = 0; i < nthreads; i++) pthread_create(&th[i], 0, work, (void *)i);
  for (int i = 0; i < nthreads; i++) pthread_join(th[i], 0);
  return 0;
}
