#!/opt/veriftools/pyvenv/bin/python
"""Developer aid (run once, needs numpy: python3-vt): birthday pairs of experiment texts colliding under 40- and
48-bit truncations of md5 / sha1 / sha256 -> merged into tools/collision_pairs.json.  2^25 candidates per side
(trailing comment tag), sorted-array intersection.  Every pair is re-verified by mc/checks/c11 at run time."""
import hashlib, json, os, sys
from concurrent.futures import ProcessPoolExecutor

import numpy as np

ROOT = os.path.dirname(os.path.dirname(os.path.abspath(__file__)))
VALID = 'def exp { splitters: uid return "V1" weighted 1, "V2" weighted 1 }'
OTHER = 'def exp { splitters: uid return "W1" weighted 1, "W2" weighted 3 }'
FPS = {
    "md5-first48": (hashlib.md5, lambda d: d[:6]), "md5-last48": (hashlib.md5, lambda d: d[-6:]), "md5-first40": (hashlib.md5, lambda d: d[:5]),
    "sha1-first48": (hashlib.sha1, lambda d: d[:6]), "sha256-first48": (hashlib.sha256, lambda d: d[:6]), "md5-hex-mid12": (hashlib.md5, lambda d: d[5:11]),
}
N = 1 << 25
CH = 1 << 20


def text(side, n):
    return (VALID + " // r" if side == 0 else OTHER + " // q") + format(n, "x")


def chunk(args):
    fname, side, lo = args
    h, cut = FPS[fname]
    out = np.empty(CH, dtype=np.uint64)
    for i in range(CH):
        out[i] = int.from_bytes(cut(h(text(side, lo + i).encode()).digest()), "big")
    return out


def main():
    path = os.path.join(ROOT, "tools", "collision_pairs.json")
    doc = json.load(open(path))
    with ProcessPoolExecutor(16) as ex:
        for fname in FPS:
            sides = []
            for side in (0, 1):
                parts = list(ex.map(chunk, [(fname, side, lo) for lo in range(0, N, CH)]))
                sides.append(np.concatenate(parts))
            common, ia, ib = np.intersect1d(sides[0], sides[1], return_indices=True)
            print(fname, len(common), "collisions", flush=True)
            if len(common):
                a, b = text(0, int(ia[0])), text(1, int(ib[0]))
                h, cut = FPS[fname]
                assert cut(h(a.encode()).digest()) == cut(h(b.encode()).digest())
                doc["pairs"][f"{fname}/valid"] = [a, b]
    json.dump(doc, open(path, "w"), indent=1)


if __name__ == "__main__":
    main()
