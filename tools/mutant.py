#!/venv/bin/python
"""Apply one patch to a scratch copy of /repo (outside /repo and /verif), optionally run the
repository's own tests there, run the named checks against the copy, delete the copy.

usage: tools/mutant.py <patch.diff> [--tests] [--tier quick] C03 C16 ...
exit 0 if every named check reported a VIOLATION (mutant caught by all), 1 otherwise."""
import os, shutil, subprocess, sys, tempfile

VERIF = os.path.dirname(os.path.dirname(os.path.abspath(__file__)))


def main():
    args = sys.argv[1:]
    patch = os.path.abspath(args.pop(0))
    tests = "--tests" in args
    args = [a for a in args if a != "--tests"]
    tier = "quick"
    if "--tier" in args:
        i = args.index("--tier")
        tier = args[i + 1]
        del args[i : i + 2]
    tmp = tempfile.mkdtemp(prefix="pyab_mut_")
    try:
        dst = os.path.join(tmp, "repo")
        subprocess.run(["git", "-C", "/repo", "worktree", "prune"], check=False)
        shutil.copytree("/repo", dst, ignore=shutil.ignore_patterns(".git", "__pycache__", ".pytest_cache"))
        r = subprocess.run(["patch", "-p1", "-s", "-d", dst, "-i", patch], capture_output=True, text=True)
        if r.returncode != 0:
            print("PATCH FAILED", r.stdout, r.stderr)
            return 2
        env = dict(os.environ, PYAB_REPO=dst, PYTHONPATH=os.path.join(dst, "src"), PYTHONDONTWRITEBYTECODE="1")
        if tests:
            t = subprocess.run(["/venv/bin/python", "-m", "pytest", "-q", "-p", "no:cacheprovider", "-x", "-n", "8"], cwd=dst, env=env, capture_output=True, text=True)
            print("repo tests:", t.stdout.strip().splitlines()[-1] if t.stdout.strip() else t.stderr[-300:])
            if t.returncode != 0:
                print("MUTANT UNREALISTIC: repo tests fail")
                return 3
        allc = True
        for pid in args:
            c = subprocess.run([os.path.join(VERIF, "check"), pid, "--tier", tier], env=env, capture_output=True, text=True)
            viol = [l for l in c.stdout.splitlines() if l.startswith("VIOLATION")]
            print(f"{pid}: exit={c.returncode} violations_printed={len(viol)}")
            for l in c.stdout.splitlines():
                if l.startswith("  {"):
                    print("   ", l[:300])
                    break
            if c.returncode == 2:
                print(c.stderr[-1500:])
            if c.returncode != 1 or not viol:
                allc = False
        return 0 if allc else 1
    finally:
        shutil.rmtree(tmp, ignore_errors=True)


if __name__ == "__main__":
    sys.exit(main())
