#!/bin/sh
# developer aid: run every registered quick (or $1) check; print exit code and wall time
cd "$(dirname "$0")/.." || exit 2
TIER=${1:-quick}
for i in 01 02 03 04 05 06 07 08 09 10 11 12 13 14 15 16 17 18; do
  s=$(date +%s.%N)
  ./check C$i --tier $TIER > /tmp/runall_C$i.out 2>&1
  rc=$?
  e=$(date +%s.%N)
  printf "C%s rc=%s %.1fs viol=%s known=%s\n" $i $rc $(echo "$e - $s" | bc) $(grep -c '^VIOLATION' /tmp/runall_C$i.out) $(grep -c '^KNOWN-FINDING' /tmp/runall_C$i.out)
done
