#!/venv/bin/python
"""Developer aid: classical mutation sweep over the library's own modules.

For every AST-level mutant of the given files: scratch copy of /repo, repository tests (a mutant
they kill is uninteresting), then the quick checks anchored in that file.  A mutant that survives the
repository tests AND every relevant check is either equivalent or a gap of the framework; the
survivors are listed for manual triage.   usage: tools/mutsweep.py out.jsonl [file ...] [--jobs 3]
"""
import ast
import copy
import json
import os
import shutil
import subprocess
import sys
import tempfile
from concurrent.futures import ThreadPoolExecutor

VERIF = os.path.dirname(os.path.dirname(os.path.abspath(__file__)))
SRC = "src/pyab_experiment"
RELEVANT = {
    "binning/binning.py": ["C03", "C16", "C12", "C10", "C15"],
    "codegen/python/python_generator.py": ["C02", "C05", "C07", "C13", "C14", "C09", "C12"],
    "codegen/python/custom_exceptions.py": ["C02", "C14"],
    "experiment_evaluator.py": ["C11", "C01", "C06", "C09", "C17"],
    "language/lexer.py": ["C06", "C08", "C07", "C05", "C02"],
    "language/grammar.py": ["C02", "C06", "C07", "C05"],
    "data_structures/syntax_tree.py": ["C05", "C02", "C07", "C03"],
    "utils/wraper_functions.py": ["C14", "C06", "C08"],
    "utils/stats.py": ["C18"],
    "sly/lex.py": ["C08", "C06", "C07"],
    "sly/yacc.py": ["C06", "C07", "C02"],
}

CMP = {ast.Eq: ast.NotEq, ast.NotEq: ast.Eq, ast.Lt: ast.LtE, ast.LtE: ast.Lt, ast.Gt: ast.GtE, ast.GtE: ast.Gt,
       ast.Is: ast.IsNot, ast.IsNot: ast.Is, ast.In: ast.NotIn, ast.NotIn: ast.In}  # fmt: skip
BIN = {ast.Add: ast.Sub, ast.Sub: ast.Add, ast.Mult: ast.Div, ast.Div: ast.Mult, ast.FloorDiv: ast.Div, ast.Mod: ast.Mult, ast.Pow: ast.Mult}


def mutants_of(tree, only_lines=None):
    """yields (description, mutated tree).  Every mutation site is visited once."""
    nodes = [n for n in ast.walk(tree)]
    for idx, node in enumerate(nodes):
        line = getattr(node, "lineno", 0)
        if only_lines and not (only_lines[0] <= line <= only_lines[1]):
            continue

        def variant(mutate):
            t = copy.deepcopy(tree)
            target = [n for n in ast.walk(t)][idx]
            if mutate(target) is False:
                return None
            ast.fix_missing_locations(t)
            return t

        if isinstance(node, ast.Compare):
            for j, op in enumerate(node.ops):
                if type(op) in CMP:
                    def m(n, j=j):
                        n.ops[j] = CMP[type(n.ops[j])]()
                    yield f"L{line} compare {type(op).__name__}->{CMP[type(op)].__name__}", variant(m)
                if isinstance(op, (ast.Lt, ast.Gt)):
                    def m2(n, j=j):
                        n.ops[j] = ast.Gt() if isinstance(n.ops[j], ast.Lt) else ast.Lt()
                    yield f"L{line} compare flip {type(op).__name__}", variant(m2)
        elif isinstance(node, ast.BoolOp):
            def m(n):
                n.op = ast.Or() if isinstance(n.op, ast.And) else ast.And()
            yield f"L{line} boolop swap", variant(m)
        elif isinstance(node, ast.UnaryOp) and isinstance(node.op, ast.Not):
            def m(n):
                n.op = ast.UAdd()
                return False
            # `not x` -> `x`: replace in parent is awkward; use bool(x) via double not
            def m3(n):
                n.operand = ast.UnaryOp(op=ast.Not(), operand=n.operand)
            yield f"L{line} drop not", variant(m3)
        elif isinstance(node, ast.BinOp) and type(node.op) in BIN:
            def m(n):
                n.op = BIN[type(n.op)]()
            yield f"L{line} binop {type(node.op).__name__}->{BIN[type(node.op)].__name__}", variant(m)
        elif isinstance(node, ast.Constant):
            v = node.value
            if isinstance(v, bool):
                def m(n):
                    n.value = not n.value
                yield f"L{line} const {v}->{not v}", variant(m)
            elif isinstance(v, int):
                for d in (1, -1):
                    def m(n, d=d):
                        n.value = n.value + d
                    yield f"L{line} const {v}->{v + d}", variant(m)
            elif isinstance(v, float):
                def m(n):
                    n.value = n.value * 2 if n.value else 1.0
                yield f"L{line} const {v}*2", variant(m)
            elif isinstance(v, str) and 0 < len(v) <= 40 and "\n" not in v:
                def m(n):
                    n.value = ""
                yield f"L{line} str {v!r}->''", variant(m)
                def m4(n):
                    n.value = n.value + "_"
                yield f"L{line} str {v!r}+_", variant(m4)
        elif isinstance(node, ast.If):
            def m(n):
                n.test = ast.UnaryOp(op=ast.Not(), operand=n.test)
            yield f"L{line} if negate", variant(m)
        elif isinstance(node, (ast.Assign, ast.AugAssign, ast.Expr, ast.Raise)) and not (isinstance(node, ast.Expr) and isinstance(getattr(node, "value", None), ast.Constant)):
            # delete the statement (replace by pass): find it in its parent body
            def make(idx=idx):
                t = copy.deepcopy(tree)
                target = [n for n in ast.walk(t)][idx]
                for parent in ast.walk(t):
                    for field in ("body", "orelse", "finalbody"):
                        body = getattr(parent, field, None)
                        if isinstance(body, list) and target in body:
                            body[body.index(target)] = ast.Pass()
                            ast.fix_missing_locations(t)
                            return t
                return None
            yield f"L{line} delete {type(node).__name__}", make()
        elif isinstance(node, ast.Return) and node.value is not None and not isinstance(node.value, ast.Constant):
            def m(n):
                n.value = ast.Constant(value=None)
            yield f"L{line} return None", variant(m)
        elif isinstance(node, ast.Call) and len(node.args) >= 2:
            def m(n):
                n.args[0], n.args[1] = n.args[1], n.args[0]
            yield f"L{line} swap args of call", variant(m)
        elif isinstance(node, ast.Subscript) and isinstance(node.slice, ast.Slice):
            def m(n):
                n.slice = ast.Slice(lower=None, upper=None, step=None)
            yield f"L{line} slice -> [:]", variant(m)


def run_one(job):
    rel, desc, source, checks, njobs = job
    tmp = tempfile.mkdtemp(prefix="pyab_ms_")
    try:
        dst = os.path.join(tmp, "repo")
        shutil.copytree("/repo", dst, ignore=shutil.ignore_patterns(".git", "__pycache__", ".pytest_cache"))
        open(os.path.join(dst, SRC, rel), "w").write(source)
        env = dict(os.environ, PYAB_REPO=dst, PYTHONPATH=os.path.join(dst, "src"), PYTHONDONTWRITEBYTECODE="1", VERIF_JOBS=str(njobs))
        try:
            # fast part of the suite first (most broken mutants die here), then the whole suite
            fast = ["tests/unit/test_experiment_files.py", "tests/unit/test_experiment_evaluator.py", "tests/unit/test_field_comparison.py", "tests/unit/test_unroutable_conditional.py"]
            t = subprocess.run(["/venv/bin/python", "-m", "pytest", "-q", "-p", "no:cacheprovider", "-x", "--timeout=120", *fast], cwd=dst, env=env, capture_output=True, text=True, timeout=600)
            tests_ok = t.returncode == 0
            if tests_ok:
                t = subprocess.run(["/venv/bin/python", "-m", "pytest", "-q", "-p", "no:cacheprovider", "-x", "-n", "4", "--timeout=120"], cwd=dst, env=env, capture_output=True, text=True, timeout=600)
                tests_ok = t.returncode == 0
        except subprocess.TimeoutExpired:
            tests_ok = False
        out = {"file": rel, "mutant": desc, "tests_pass": tests_ok, "caught_by": [], "faults": []}
        if tests_ok:
            for c in checks:
                try:
                    r = subprocess.run([os.path.join(VERIF, "check"), c, "--tier", "quick"], env=env, capture_output=True, text=True, timeout=1500)
                    rc = r.returncode
                except subprocess.TimeoutExpired:
                    rc = 99
                if rc == 1:
                    out["caught_by"].append(c)
                    break  # one catching check is enough for the sweep
                if rc not in (0, 1):
                    out["faults"].append((c, rc, (r.stderr[-300:] if rc != 99 else "timeout")))
        return out
    finally:
        shutil.rmtree(tmp, ignore_errors=True)


def main():
    args = sys.argv[1:]
    outp = args.pop(0)
    jobs = 3
    if "--jobs" in args:
        i = args.index("--jobs")
        jobs = int(args[i + 1])
        del args[i : i + 2]
    files = args or [f for f in RELEVANT if not f.startswith("sly/")]
    work = []
    for spec in files:
        rel, _, rng = spec.partition("@")
        only = tuple(int(x) for x in rng.split("-")) if rng else None
        src = open(os.path.join("/repo", SRC, rel)).read()
        tree = ast.parse(src)
        seen = set()
        for desc, t in mutants_of(tree, only):
            if t is None:
                continue
            try:
                code = ast.unparse(t)
                compile(code, rel, "exec")
            except Exception:  # noqa
                continue
            if code in seen or code == ast.unparse(tree):
                continue
            seen.add(code)
            work.append((rel, desc, code, RELEVANT[rel], max(2, 16 // jobs)))
    print(f"{len(work)} mutants", flush=True)
    done = 0
    with open(outp, "a") as f, ThreadPoolExecutor(jobs) as ex:
        for r in ex.map(run_one, work):
            done += 1
            f.write(json.dumps(r) + "\n")
            f.flush()
            tag = "killed-by-tests" if not r["tests_pass"] else ("CAUGHT " + ",".join(r["caught_by"]) if r["caught_by"] else ("FAULT" if r["faults"] else "SURVIVED"))
            print(f"[{done}/{len(work)}] {r['file']} {r['mutant']}: {tag}", flush=True)


if __name__ == "__main__":
    main()
