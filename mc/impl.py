"""Thin adapter to the implementation under test (public entry points only)."""
from __future__ import annotations

from .common import bind_repo, quiet

bind_repo()

from pyab_experiment.binning import binning as _binning  # noqa: E402
from pyab_experiment.codegen.python.custom_exceptions import (  # noqa: E402
    ExperimentConditionalFailedError,
)
from pyab_experiment.experiment_evaluator import ExperimentEvaluator  # noqa: E402
from pyab_experiment.utils import wraper_functions as _wf  # noqa: E402

binning = _binning
wf = _wf


def build(text):
    """-> ('ok', evaluator) | ('exc', class name, message)"""
    try:
        with quiet():
            ev = ExperimentEvaluator(text)
        return ("ok", ev)
    except Exception as e:  # noqa
        return ("exc", type(e).__name__, str(e)[:200])


def parse(text):
    """-> ('ok', ast) | ('none',) | ('exc', class, msg)"""
    try:
        with quiet():
            a = _wf.parse_source(text)
        return ("none",) if a is None else ("ok", a)
    except Exception as e:  # noqa
        return ("exc", type(e).__name__, str(e)[:200])


def gen(text, expose=False):
    try:
        with quiet():
            s = _wf.generate_code(text, expose)
        return ("ok", s)
    except Exception as e:  # noqa
        return ("exc", type(e).__name__, str(e)[:200])


def call(ev, env):
    """-> ('ok', value) | ('unroutable',) | ('exc', class, msg)"""
    try:
        return ("ok", ev(**env))
    except ExperimentConditionalFailedError:
        return ("unroutable",)
    except Exception as e:  # noqa
        return ("exc", type(e).__name__, str(e)[:200])


def tokens(text):
    """Real token stream as [(type, value)] or ('exc', ...).  Output of the error callback is
    captured: a lexer that *prints and skips* is reported through `skipped`."""
    import io
    import sys

    from pyab_experiment.language.lexer import ExperimentLexer

    buf = io.StringIO()
    o, e = sys.stdout, sys.stderr
    sys.stdout = sys.stderr = buf
    try:
        try:
            toks = [(t.type, t.value) for t in ExperimentLexer().tokenize(text)]
        finally:
            sys.stdout, sys.stderr = o, e
        return ("ok", toks, buf.getvalue())
    except Exception as ex:  # noqa
        return ("exc", type(ex).__name__, str(ex)[:200])
