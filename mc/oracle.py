"""Comparison of one implementation outcome with the reference model's outcome."""
from __future__ import annotations

from fractions import Fraction

import os

from .ref import sem

_FAIL_CLOSED_OK = bool(os.environ.get("MC_FAIL_CLOSED_OK"))


def same_value(a, b) -> bool:
    """exact value AND type (1 != 1.0 != True != '1'); floats compared by repr (-0.0, nan)."""
    if type(a) is not type(b):
        return False
    if isinstance(a, float):
        return repr(a) == repr(b)
    if isinstance(a, (tuple, list)):
        return len(a) == len(b) and all(same_value(x, y) for x, y in zip(a, b))
    return a == b


def expected(ast, env):
    """-> ('unroutable',) | ('group', ret_node, allowed_indices (set), exact_index|None)"""
    _, _name, salt, split, c = ast
    r = sem.route(c, env)
    if r == sem.UNROUTABLE:
        return ("unroutable",)
    if len(r[1]) == 1:
        return ("group", r, {0}, 0)
    ws = [Fraction(str(w)) for _, w in r[1]]
    if not split:
        return ("group", r, {i for i, w in enumerate(ws) if w > 0}, None)
    k = sem.hash_k(sem.hash_key(salt, split, env))
    ex = sem.part_exact(ws, k)
    if sem.float_exact(ws, k):
        return ("group", r, {ex}, ex)
    return ("group", r, sem.part_allowed(ws, k), ex)


def agree(out, exp):
    """out: impl.call result.  -> None if it agrees, else a short reason string."""
    if exp[0] == "unroutable":
        if out[0] == "unroutable":
            return None
        return f"expected the unroutable-condition error, got {out!r}"
    _, r, allowed, _ex = exp
    if out[0] == "exc" and _FAIL_CLOSED_OK:
        return None  # (hosts where MD5 is refused: failing is allowed, another assignment is not)
    if out[0] != "ok":
        return f"expected a group of {short_ret(r)}, got {out!r}"
    v = out[1]
    for i in allowed:
        if same_value(v, r[1][i][0]):
            return None
    return f"expected one of {[r[1][i][0] for i in sorted(allowed)]!r} from {short_ret(r)}, got {v!r} ({type(v).__name__})"


def short_ret(r):
    s = ", ".join(f"{v!r} w {w}" for v, w in r[1][:4])
    return f"return[{s}{', ...' if len(r[1]) > 4 else ''}]"
