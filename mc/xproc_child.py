"""Child interpreter of X-proc: recompiles the transcript's programs FROM TEXT in this process
and prints every assignment.  Also prints hash('x') and a set iteration order so that the parent
can prove the hash-seed dimension was actually exercised."""
from __future__ import annotations

import hashlib
import json
import locale
import os
import sys


def transcript_programs():
    from mc.enum import idents as ei
    from mc.ref import parse as rp

    multi = ("ret", (("A", "1"), ("B", "2"), ("C", "3"), ("D", "0.5")))
    progs = []
    names = [n for n in ei.POOL1 if n not in ("e",)]
    for n in names:
        progs.append(("prog", "exp", None, (n,), multi))
    for a in names[:8]:
        for b in names[:8]:
            if a != b:
                progs.append(("prog", "exp", "s2", (a, b), multi))
    for a in names[:5]:
        for b in names[:5]:
            for c in names[:5]:
                if len({a, b, c}) == 3:
                    progs.append(("prog", "exp", "é3", (a, b, c), multi))
    cond = ("if", ("cmp", ("id", "seg"), "in", ("tup", (("lit", "x"), ("lit", 2)))), multi, ("else", ("ret", (("E", "1"), ("F", "1")))))
    progs.append(("prog", "exp", "k", ("uid", "seg"), cond))
    # anything that tempts an implementation into iterating a set / dict keyed by strings: repeated and many string labels,
    # string members of a tuple literal, fields that differ by case only
    progs.append(("prog", "exp", None, ("uid",), ("ret", (("A", "1"), ("B", "2"), ("A", "1"), ("C", "3"), ("B", "1")))))
    progs.append(("prog", "exp", "d", ("uid",), ("ret", (("new", "10"), ("old", "80"), ("new", "10")))))
    progs.append(("prog", "exp", None, ("uid",), ("ret", tuple((f"label-{i}", "1") for i in range(12)))))
    progs.append(("prog", "exp", None, ("uid",), ("ret", (("x", "1"), ("x", "1"), ("y", "1"), ("x", "1")))))
    progs.append(("prog", "exp", "k", ("uid", "seg"), ("if", ("cmp", ("id", "seg"), "in", ("tup", tuple(("lit", c) for c in "xyzwvu"))), ("ret", (("in", "1"), ("IN", "1"))),
                                                       ("else", ("ret", (("out", "1"), ("out", "1"), ("OUT", "2")))))))
    progs.append(("prog", "exp", "c", ("userId", "userid", "USERID"), multi))
    progs.append(("prog", "exp", "dup", ("uid", "region", "uid"), multi))
    tup = ("tup", tuple(("lit", c) for c in ("x", "why", "zed", "w")))
    progs.append(("prog", "exp", "t", ("uid", "seg"), ("if", ("cmp", ("id", "seg"), "==", tup), ("ret", (("eq", "1"), ("EQ", "1"))),
                                                       ("elif", ("cmp", ("id", "seg"), "<", tup), ("ret", (("lt", "1"), ("LT", "1"))), ("else", ("ret", (("gt", "1"), ("GT", "2"))))))))  # a splitter listed twice counts once
    progs.append(("prog", "exp", None, ("b", "a", "b", "a"), multi))
    # non-ASCII text in every position of a program (salt, labels, operands, tuple members, under `not`): anything that prints
    # or logs a piece of the source meets the process's stdout / locale encoding
    ne = ("not", ("cmp", ("id", "seg"), "==", ("lit", "zürich")))
    progs.append(("prog", "exp", "sél-日本", ("uid", "seg"), ("if", ne, ("ret", (("é", "1"), ("日本", "2"), ("🎲", "1"))), ("else", ("ret", (("ü", "1"), ("x", "1")))))))
    progs.append(("prog", "exp", None, ("uid", "seg"), ("if", ("and", ("not", ("cmp", ("id", "seg"), "in", ("tup", (("lit", "é"), ("lit", "日本"))))), ("not", ("not", ("cmp", ("lit", "ß"), "!=", ("id", "seg"))))),
                                                   ("ret", (("a", "1"), ("b", "1"))), ("elif", ("or", ("cmp", ("id", "seg"), "==", ("lit", "é")), ne), ("ret", (("c", "1"), ("d", "3"))), None))))
    return [(rp.render(p), p) for p in progs]


def ids():
    out = list(range(24)) + [str(i) for i in range(8)] + [f"user{i}@example.com" for i in range(8)]
    out += ["", "é", "josé", "日本語", "a\x00b", 1.5, -0.0, 1e308, float("inf"), float("nan"), True, False, None, 2**64, 10**40, -1]
    out += [f"{i:08d}" for i in range(8)]
    return out


def compute():
    from mc import impl

    after_import_knobs()

    rows = []
    for text, ast in transcript_programs():
        b = impl.build(text)
        if b[0] != "ok":
            rows.append([text, "BUILD-FAILED " + b[1]])
            continue
        split = ast[3]
        for j, u in enumerate(ids()):
            env = {s: (u if k == 0 else ids()[(j + 7 * k) % len(ids())]) for k, s in enumerate(split)}
            if "seg" in env:
                env["seg"] = "x" if j % 2 else 2
                if ast[2] == "t":
                    env["seg"] = (("x", "why", "zed", "w"), ("x", "w", "why", "zed"), ("w", "x"), ("zed",))[j % 4]
            r = impl.call(b[1], env)
            rows.append(repr(r[:2]))
    return rows


def apply_environment_knobs():
    """harness-side knobs of the child process: clocks, recursion limit, garbage collector, decimal context"""
    import time

    off = float(os.environ.get("XPROC_CLOCK_OFFSET", "0") or 0)
    if off:
        _t, _tn = time.time, time.time_ns
        time.time = lambda: _t() + off
        time.time_ns = lambda: _tn() + int(off * 1e9)
    if os.environ.get("XPROC_FAST_CLOCK"):
        # every reading of any clock is one hour later than the previous one (TTL caches, rate meters, rotating salts)
        state = {"n": 0}
        base = {k: getattr(time, k)() for k in ("time", "monotonic", "perf_counter")}

        def mk(kind, ns=False):
            def f():
                state["n"] += 1
                v = base[kind] + 3600.0 * state["n"]
                return int(v * 1e9) if ns else v

            return f

        time.time, time.monotonic, time.perf_counter = mk("time"), mk("monotonic"), mk("perf_counter")
        time.time_ns, time.monotonic_ns, time.perf_counter_ns = mk("time", True), mk("monotonic", True), mk("perf_counter", True)
    if os.environ.get("XPROC_RMCWD"):
        import tempfile

        d = tempfile.mkdtemp(prefix="pyab_rmcwd_")
        os.chdir(d)
        os.rmdir(d)  # the process now lives in a directory that no longer exists
    if os.environ.get("XPROC_LOG_DEBUG"):
        import logging

        logging.basicConfig(level=1, stream=open(os.devnull, "w"))
        logging.getLogger().setLevel(1)
        logging.captureWarnings(False)
    if os.environ.get("XPROC_MAX_FDS"):
        import resource

        soft, hard = resource.getrlimit(resource.RLIMIT_NOFILE)
        resource.setrlimit(resource.RLIMIT_NOFILE, (min(int(os.environ["XPROC_MAX_FDS"]), hard if hard > 0 else 1 << 20), hard))
    if os.environ.get("XPROC_FIPS"):
        import hashlib

        def _refused():
            try:
                hashlib.md5(b"probe")
            except ValueError:
                return True
            return False

        if not _refused():  # this OpenSSL ignored the configuration file: behave like a FIPS host anyway
            _real = hashlib.md5

            def _fips_md5(data=b"", *, usedforsecurity=True, **kw):
                if usedforsecurity:
                    raise ValueError("[digital envelope routines] unsupported (simulated FIPS mode)")
                return _real(data, usedforsecurity=False, **kw)

            hashlib.md5 = _fips_md5
    if os.environ.get("XPROC_RECURSION"):
        sys.setrecursionlimit(int(os.environ["XPROC_RECURSION"]))
    if os.environ.get("XPROC_NOGC"):
        import gc

        gc.disable()
    if os.environ.get("XPROC_DECIMAL_PREC"):
        import decimal

        decimal.getcontext().prec = int(os.environ["XPROC_DECIMAL_PREC"])
        decimal.getcontext().rounding = decimal.ROUND_DOWN
        decimal.DefaultContext.prec = int(os.environ["XPROC_DECIMAL_PREC"])
    if os.environ.get("XPROC_FLOAT_REPR"):
        import locale

        try:
            locale.setlocale(locale.LC_ALL, "")
        except locale.Error:
            pass


def after_import_knobs():
    if os.environ.get("XPROC_WARN_ERROR"):
        import warnings

        warnings.simplefilter("error")


def _cwd():
    try:
        return os.getcwd()
    except OSError:
        return "<removed>"


if __name__ == "__main__":
    apply_environment_knobs()
    # the sink keeps the encoding and error policy of the process's real stdout: a stray print of a non-ASCII value under an
    # ASCII-only stdout fails here exactly as it would in the host application
    sys.stdout = open(os.devnull, "w", encoding=sys.__stdout__.encoding, errors=sys.__stdout__.errors)
    try:
        rows = compute()
    except BaseException as e:  # noqa  (the library cannot even be imported / used in this process: that IS the transcript)
        rows = [f"LIBRARY-FAILED {type(e).__name__}: {str(e)[:200]}"]
    blob = json.dumps(rows, ensure_ascii=True)
    info = {
        "digest": hashlib.sha256(blob.encode()).hexdigest(),
        "n": len(rows),
        "hash_x": hash("x"),
        "set_order": list({"uid", "org_id", "index", "a", "order_id"}),
        "locale": locale.getpreferredencoding(False),
        "utf8_mode": sys.flags.utf8_mode,
        "optimize": sys.flags.optimize,
        "cwd": _cwd(),
        "rows": rows if os.environ.get("XPROC_FULL") else None,
    }
    sys.__stdout__.write(json.dumps(info))
