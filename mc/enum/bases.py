"""Base programs (committed copies of the repository's 13 test programs, the documented
examples, and one program exercising every production)."""
from __future__ import annotations

import glob
import os

from ..ref import lex as rl
from ..ref import parse as rp

_DIR = os.path.join(os.path.dirname(os.path.abspath(__file__)), "base_programs")


def all_bases():
    out = {}
    for f in sorted(glob.glob(os.path.join(_DIR, "*.pyab"))):
        out[os.path.basename(f)[:-5]] = open(f).read()
    return out


SMALL = ["basic_experiment", "salt", "splitters", "splitter_test", "conditional_test_1", "unroutable_conditional",
         "readme_cond", "all_productions", "comments", "integer_splitting_field", "polymorphic_return", "readme_complete", "underscore_names"]  # fmt: skip


def lexemes(text):
    """source lexemes of a base program (comments and whitespace dropped)"""
    return [text[a:b] for _t, _v, a, b in rl.tokenize_spans(text, "W")]


def join(lexs):
    return " ".join(lexs)


def selfcheck():
    for name, t in all_bases().items():
        cl = rp.classify(t)
        assert cl[0] == "accept", (name, cl)
        assert rp.classify(join(lexemes(t))) == cl, name
