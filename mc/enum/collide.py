"""Texts that collide with a given text under WEAK change detectors (crc32, adler32-free family:
length, byte sum, shared prefix / suffix).  Used in the history alphabets: an evaluator that decides
"source unchanged" by anything weaker than the full text must still switch / raise."""
from __future__ import annotations

import zlib


def _solve_gf2(vectors, target):
    """subset of `vectors` (ints) whose XOR is `target`, by Gaussian elimination; None if impossible"""
    basis = []  # (vector, mask of original indices)
    for i, v in enumerate(vectors):
        m = 1 << i
        for bv, bm in basis:
            if v ^ bv < v:
                v ^= bv
                m ^= bm
        if v:
            basis.append((v, m))
            basis.sort(reverse=True)
    t, tm = target, 0
    for bv, bm in basis:
        if t ^ bv < t:
            t ^= bv
            tm ^= bm
    if t:
        return None
    return [i for i in range(len(vectors)) if tm >> i & 1]


def crc32_twin(target_text, body: str, n: int = 48) -> str:
    """body + ' // ' + tag  with  crc32(result) == crc32(target_text)  (tag over {'a','b'});
    target_text may also be the wanted crc value itself (an int)"""
    want = target_text if isinstance(target_text, int) else zlib.crc32(target_text.encode("utf-8"))
    base = (body + " // " + "a" * n).encode("utf-8")
    c0 = zlib.crc32(base)
    deltas = []
    for i in range(n):
        b = bytearray(base)
        b[len(base) - n + i] = ord("b")
        deltas.append(zlib.crc32(bytes(b)) ^ c0)
    pick = _solve_gf2(deltas, want ^ c0)
    if pick is None:
        raise ValueError("no crc32 twin with this tag length")
    b = bytearray(base)
    for i in pick:
        b[len(base) - n + i] = ord("b")
    out = bytes(b).decode("utf-8")
    assert zlib.crc32(out.encode("utf-8")) == want and out != target_text
    return out


def same_length_and_sum(target_text: str, body: str) -> str:
    """body + ' // ' + padding with the same length and byte sum as target_text (when body is shorter)"""
    t = target_text.encode("utf-8")
    base = (body + " // ").encode("utf-8")
    k = len(t) - len(base)
    if k < 2:
        raise ValueError("body too long")
    need = sum(t) - sum(base)
    # k bytes in [48, 122] summing to `need`
    lo, hi = 48, 122
    if not (lo * k <= need <= hi * k):
        raise ValueError("byte sum unreachable")
    pad = [lo] * k
    rest = need - lo * k
    for i in range(k):
        d = min(hi - lo, rest)
        pad[i] += d
        rest -= d
    out = (base + bytes(pad)).decode("utf-8")
    assert len(out.encode()) == len(t) and sum(out.encode()) == sum(t)
    return out


def twins(valid_text: str, other_valid_body: str, bad_syntax_body: str, bad_lex_body: str):
    """dict name -> text; every text differs from valid_text but shares a weak fingerprint with it"""
    out = {}
    for tag, body in (("valid", other_valid_body), ("badsyn", bad_syntax_body), ("badlex", bad_lex_body)):
        out[f"crc32_{tag}"] = crc32_twin(valid_text, body)
        try:
            out[f"lensum_{tag}"] = same_length_and_sum(valid_text, body)
        except ValueError:
            pass
    # shared 64-character prefix and suffix (a detector that samples the ends)
    out["ends_valid"] = valid_text[:64] + " /* x */ " + valid_text[64:]
    return out


def crc32_id_pairs(prefixes=("", "ramp", "s"), n=6):
    """pairs of unit ids of equal length whose hash KEYS (prefix + id) have the same crc32 - for caches
    that index units by a weak fingerprint of the key"""
    out = []
    for j in range(n):
        for pre in prefixes:
            a = f"u-{j:02d}-" + "a" * 40
            want = zlib.crc32((pre + a).encode())
            base = (pre + f"v-{j:02d}-" + "a" * 40).encode()
            c0 = zlib.crc32(base)
            deltas = []
            for i in range(40):
                b = bytearray(base)
                b[len(base) - 40 + i] = ord("b")
                deltas.append(zlib.crc32(bytes(b)) ^ c0)
            pick = _solve_gf2(deltas, want ^ c0)
            if pick is None:
                continue
            b = bytearray(base)
            for i in pick:
                b[len(base) - 40 + i] = ord("b")
            other = bytes(b).decode()[len(pre):]
            assert zlib.crc32((pre + other).encode()) == want and len(other) == len(a) and other != a
            out.append((pre, a, other))
    return out


# ---------------------------------------------------------------- birthday pairs for arbitrary 32-bit fingerprints
def _fingerprints():
    import hashlib

    return {
        "md5-first32": lambda b: hashlib.md5(b).digest()[:4],
        "md5-last32": lambda b: hashlib.md5(b).digest()[-4:],
        "sha1-first32": lambda b: hashlib.sha1(b).digest()[:4],
        "sha256-first32": lambda b: hashlib.sha256(b).digest()[:4],
        # 40- / 48-bit truncations (hexdigest()[:12] and friends; found by tools/mkcollisions48.py)
        "md5-first48": lambda b: hashlib.md5(b).digest()[:6],
        "md5-last48": lambda b: hashlib.md5(b).digest()[-6:],
        "md5-first40": lambda b: hashlib.md5(b).digest()[:5],
        "md5-hex-mid12": lambda b: hashlib.md5(b).digest()[5:11],
        "sha1-first48": lambda b: hashlib.sha1(b).digest()[:6],
        "sha256-first48": lambda b: hashlib.sha256(b).digest()[:6],
        "adler32": lambda b: zlib.adler32(b).to_bytes(4, "big"),
        "crc32": lambda b: zlib.crc32(b).to_bytes(4, "big"),
        "len+sum16": lambda b: (len(b) & 0xFFFF).to_bytes(2, "big") + (sum(b) & 0xFFFF).to_bytes(2, "big"),
        "python-hash-like (FNV-1a 32)": lambda b: _fnv1a(b),
    }


def _fnv1a(b):
    h = 0x811C9DC5
    for c in b:
        h = ((h ^ c) * 0x01000193) & 0xFFFFFFFF
    return h.to_bytes(4, "big")


def birthday_pair(fp, body_a: str, body_b: str, limit=400000):
    """(text_a, text_b): body + ' // <tag>' variants with fp(text_a) == fp(text_b); deterministic search"""
    seen = {}
    for n in range(limit):
        tag = format(n, "x")
        ta = (body_a + " // r" + tag)
        seen.setdefault(fp(ta.encode()), ta)
    for n in range(limit):
        tb = (body_b + " // q" + format(n, "x"))
        hit = seen.get(fp(tb.encode()))
        if hit is not None:
            return hit, tb
    return None


def birthday_pairs(valid_body: str, other_bodies: dict, limit=300000):
    """name -> (current valid text, colliding other text) for every fingerprint x other body"""
    out = {}
    for fname, fp in _fingerprints().items():
        for oname, body in other_bodies.items():
            p = birthday_pair(fp, valid_body, body, limit)
            if p:
                out[f"{fname}/{oname}"] = p
    return out


# ---------------------------------------------------------------- normalisation twins
# Groups of DISTINCT strings that a "tidying" step (strip, whitespace collapse, case folding, Unicode
# normalisation, numeric coercion, lossy encoding, line-ending normalisation) would identify.  As unit
# ids, salts and literals each member is its own value; the reference model never identifies them.
NEAR_TWINS = [
    ("u17", "u17 ", " u17", "u17\n", "\tu17", "u17 ", "u17\r\n", "u17\x00", "﻿u17", "u17​"),
    ("a b", "a  b", "a\tb", "ab", "a b", "a\nb", "a b", "a-b", "a_b"),
    ("User", "user", "USER", "uſer", "ｕser"),
    ("é", "é", "e", "É"),
    ("Å", "Å", "Å"),
    ("Ω", "Ω"),
    ("ｃｈｅｃｋｏｕｔ", "checkout", "checkout ", " checkout", "Checkout"),
    ("growth²", "growth2"),
    ("ﬁlter", "filter"),
    ("١٢٣", "123", "１２３", " 123", "0123", "123.0", "+123", "1_2_3", "1.23e2", "123 "),
    ("7", "07", "007", "7.0", "7e0", "٧"),
    ("ready?", "ready�", "ready", "ready??"),
    ("nan", "NaN", "NAN"),
    ("True", "true", "1"),
    ("None", "none", "", "null"),
    ("가", "가"),
]

# doubled / halved escape characters of template and formatting mini-languages ($$ -> $, %% -> %, {{ -> {, \\ -> \) and
# character references / escapes of other notations that spell a quote or another character
NEAR_TWINS += [
    ("pricing-$$", "pricing-$", "pricing-$$$", "pricing-$$$$", "pricing-${x}", "pricing-$x"),
    ("save%%", "save%", "save%%%", "save%s", "save%(uid)s"),
    ("a{{b}}", "a{b}", "a{{{b}}}", "a{}", "a{0}"),
    ("p\\\\q", "p\\q", "pq", "p/q"),
    ("fr&quot;x", 'fr"x', "fr&#34;x", "fr&amp;quot;x", "fr%22x", "fr\\u0022x", "fr\\x22x"),
    ("it&apos;s", "it's", "it&#39;s", "it&#x27;s", "it%27s"),
    ("a&lt;b", "a<b", "a&amp;lt;b"),
]


def near_twin_values():
    """flat list, group members adjacent"""
    return [s for g in NEAR_TWINS for s in g]


def near_twin_pairs():
    """(a, b) for every group: first member against each other member"""
    return [(g[0], x) for g in NEAR_TWINS for x in g[1:]]
