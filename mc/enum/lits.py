"""E-lit: literal contents for every literal position."""
from __future__ import annotations

import codecs
import math
from itertools import product

SIGMA = ["a", "0", "1", "e", ".", "-", "'", '"', "\\", " ", "n", "é"]

NAMED = ["02134", "inf", "nan", "1e5", "True", "None", "C:\\temp", "\\n", "0x10", "1_0", "٣", "", "it's",
         'say "hi"', "%s", "{0}", "{x}", "\\\\", "\\'", "\\u00e9", "é", "日本", " lead", "trail ", "a\\", "'''", '"""',
         "9007199254740993", "1.0", "-1", "+1", "1.", ".5", "0.10", "1e400", "-0", "00", "Infinity", "#", "//", "/* x */",
         "a,b", "(1,2)", "x == 1", "\t", "\x00", "𝒳", "a\rb", "a\u2028b", "a\x0cb", "a\x85b", "a\x0bb", "a\x1cb", "🎲", "\ud7ff", "a\u0301", "\u212b", "\u2126", "\u1100\u1161", "e\u0301\u0323", "ﬁ", "ｆｕｌｌ", "İ", "ß", "\u00a0", "\u200b", "\ufeff",
         "http://a.example/x?y=1&z=2", "//a", "/*a*/", "a/*b", "x//y", "*/", "/*", "a */ b", "name", "id", "@KEY@", "{salt}", "$uid", "<id>", "%(uid)s", "fr&quot;x", "it&apos;s", "&#34;", "&#39;", "&amp;", "&lt;", "%22", "%27", "a%20b", "pricing-$$", "$$", "${x}", "$x", "%%", "{{", "}}", "{{x}}", "O’Brien", "“q”", "‘a’", "D’Arcy", "it’s me", "«g»", "´x`", "＂fw＂", "＇fw＇"]  # fmt: skip

INTS = [0, 1, 7, 2**31, 2**53, 2**53 + 1, 2**63, 2**64 + 1, 10**30]
DECS = ["0.0", "0.5", "1.5", "0.1", "3.14", "100.0", "0.000000001", "123456789.123456789", "1.0", "2.50", "007.5"]


def strings(k):
    for n in range(0, k + 1):
        for t in product(SIGMA, repeat=n):
            yield "".join(t)


def expressible(s):
    """quote styles that can hold content s (no escapes in the DSL)"""
    if "\n" in s:
        return []
    return [q for q in ('"', "'") if q not in s]


def neighbours(v):
    """inputs equal to, and minimally different from, literal value v"""
    out = [v]
    if isinstance(v, str):
        out += [v + "a", v[:-1] if v else "b", v.upper() if v.upper() != v else v + " ", " " + v, repr(v), f"'{v}'"]
        for conv in (int, float):
            try:
                out.append(conv(v))
            except (ValueError, OverflowError):
                pass
        try:
            out.append(codecs.decode(v, "unicode_escape"))
        except Exception:  # noqa
            pass
        if v in ("True", "None", "False"):
            out.append({"True": True, "None": None, "False": False}[v])
    elif isinstance(v, bool):
        pass
    elif isinstance(v, int):
        out += [v + 1, v - 1, str(v)]
        try:
            out.append(float(v))
        except OverflowError:
            pass
    elif isinstance(v, float):
        out += [math.nextafter(v, math.inf), math.nextafter(v, -math.inf), str(v), int(v), -v]
    # de-duplicate by (type, repr)
    seen, res = set(), []
    for x in out:
        key = (type(x).__name__, repr(x))
        if key not in seen:
            seen.add(key)
            res.append(x)
    return res
