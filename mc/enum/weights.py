"""E-weights: weight vectors as DSL literal texts (exact decimal meaning) and E-grid positions."""
from __future__ import annotations

from fractions import Fraction
from itertools import product

W = ["0", "1", "2", "3", "7", "0.5", "0.1", "3.4", "0.000000001", "1000000000"]


def small_vectors(nmax):
    for n in range(1, nmax + 1):
        for v in product(W, repeat=n):
            if any(Fraction(x) > 0 for x in v):
                yield list(v)


def families():
    out = []
    for n in (5, 8, 16, 63, 64):
        out.append(["1"] * n)
        out.append([str(i + 1) for i in range(n)])
        out.append([str(n - i) for i in range(n)])
        for z in sorted({0, 1, n // 2, n - 2, n - 1}):
            v = ["1"] * n
            v[z] = "0"
            out.append(v)
        out.append(["0" if i % 2 else "1" for i in range(n)])
        out.append(["1" if i % 2 else "0" for i in range(n)])
        out.append(["1000000000"] + ["0.000000001"] * (n - 1))
        out.append(["0.000000001"] * (n - 1) + ["1000000000"])
        out.append(["0"] * (n - 1) + ["1"])
        out.append(["1"] + ["0"] * (n - 1))
        out.append(["0"] * (n // 2) + ["0.5"] * (n - n // 2))
        out.append(["0.1"] * n)
        out.append(["3.4", "0.1"] * (n // 2) + (["7"] if n % 2 else []))
    return out


def families_large():
    """beyond the 64 groups the property names (cheap, and the code holds there): a size-dependent fast path for experiments
    with hundreds of arms must keep every group one interval, in declared order"""
    out = []
    for n in (100, 127, 128, 129, 200, 256):
        out.append(["1"] * n)
        out.append([str(1 + i % 3) for i in range(n)])
        out.append([str(n - i) for i in range(n)])
        v = ["1"] * n
        v[n // 2] = "0"
        out.append(v)
        out.append(["5"] + ["1"] * (n - 2) + ["0.5"])
    return out


def fr(v):
    return [Fraction(x) for x in v]


def boundaries(ws):
    """grid indices k at/around every exact boundary c_i*2^32/T (floor and ceil)."""
    T = sum(ws)
    c = Fraction(0)
    out = set()
    for w in ws[:-1]:
        c += w
        b = c * (1 << 32) / T
        fl = b.numerator // b.denominator
        out.update((fl, fl + 1) if b.denominator != 1 else (fl,))
    return {k for k in out if 0 <= k < (1 << 32)}


def grid(ws, coarse_bits=12, d=3):
    """E-grid: extremes, +-d around every boundary, and a coarse uniform grid."""
    N = 1 << 32
    ks = {0, 1, 2, N - 2, N - 1}
    for b in boundaries(ws):
        for dd in range(-d, d + 1):
            if 0 <= b + dd < N:
                ks.add(b + dd)
    step = N >> coarse_bits
    ks.update(range(0, N, step))
    return sorted(ks)
