"""E-ident: identifier pools and placement patterns; E-big: size families."""
from __future__ import annotations

from itertools import product

POOL1 = ["a", "x1", "_u", "Zed", "I", "order_id", "index", "not_active", "android", "iffy", "elsewhere", "define", "salty",
         "returned", "weighted_avg", "in_stock", "notin", "orchid", "splitters_2", "org", "format", "_", "__x__", "e", "u",
         "self", "cls", "population", "weights", "input_id", "cum_weights", "ast", "code_holder", "fn_name", "if_", "in_", "or_", "and1", "not1", "def_", "else_", "return0", "Else", "IF", "Weighted", "salt_", "l", "O0"]  # fmt: skip

POOL2 = ["class", "lambda", "None", "True", "is", "for", "import", "pass", "while", "yield", "as", "del", "elif", "from", "with",
         "__debug__", "str", "map", "partial", "kwargs", "deterministic_choice", "choose_experiment_variant",
         "ExperimentConditionalFailedError"]  # fmt: skip

T = ("ret", (("T", "1"),))
F = ("else", ("ret", (("F", "1"),)))


def prog(name, split, cond, salt=None):
    return ("prog", name, salt, tuple(split) if split else None, cond)


def cond_on(fields):
    """if f0 == 1 [and f1 == 1 ...] {T} else {F}"""
    p = None
    for f in fields:
        c = ("cmp", ("id", f), "==", ("lit", 1))
        p = c if p is None else ("and", p, c)
    return ("if", p, T, F)


def singles(pool):
    """(tag, ast, envs) with one pool identifier in one position"""
    for i in pool:
        yield f"name:{i}", prog(i, ("uid",), cond_on(["fld"])), [{"uid": 1, "fld": 1}, {"uid": 2, "fld": 0}]
        yield f"splitter:{i}", prog("exp", (i,), cond_on(["fld"])), [{i: 1, "fld": 1}, {i: "x", "fld": 0}]
        yield f"splitter2:{i}", prog("exp", ("uid", i), ("ret", (("A", "1"), ("B", "1")))), [{i: k, "uid": 7} for k in range(4)]
        yield f"cond:{i}", prog("exp", ("uid",), cond_on([i])), [{"uid": 1, i: 1}, {"uid": 1, i: 0}]
        yield f"shared:{i}", prog("exp", (i,), cond_on([i])), [{i: 1}, {i: 0}]
        yield f"all:{i}", prog(i, (i,), cond_on([i])), [{i: 1}, {i: 0}]
        yield f"intuple:{i}", prog("exp", ("uid",), ("if", ("cmp", ("id", "fld"), "in", ("tup", (("id", i), ("lit", 5)))), T, F)), \
            [{"uid": 1, "fld": 3, i: 3}, {"uid": 1, "fld": 3, i: 4}, {"uid": 1, "fld": 5, i: 4}]  # fmt: skip
        yield f"nosplit:{i}", prog("exp", None, cond_on([i])), [{i: 1}, {i: 0}]
        c1 = ("cmp", ("id", i), "==", ("lit", 1))
        yield f"notcond:{i}", prog("exp", ("uid",), ("if", ("not", c1), T, ("elif", c1, ("ret", (("E", "1"),)), None))), [{"uid": 1, i: 1}, {"uid": 1, i: 0}]
        yield f"notand:{i}", prog("exp", ("uid",), ("if", ("and", ("not", c1), ("or", c1, ("not", ("cmp", ("id", i), ">", ("lit", 3))))), T, F)), [{"uid": 1, i: v} for v in (0, 1, 5)]
        yield f"inops:{i}", prog("exp", ("uid",), ("if", ("cmp", ("lit", 1), "in", ("id", i)), T,
                                                   ("elif", ("cmp", ("id", i), "not in", ("tup", (("tup", (("lit", 2), ("lit", 3))), ("lit", 5)))), ("ret", (("E", "1"),)), F))), \
            [{"uid": 1, i: v} for v in ((1, 2), (3,), (2, 3))]  # fmt: skip
        yield f"dupsplit:{i}", prog("exp", (i, "uid", i), ("ret", (("A", "1"), ("B", "1")))), [{i: k, "uid": 7} for k in range(4)]


def pairs(pool):
    for a, b in product(pool, repeat=2):
        if a == b:
            continue
        yield f"pair:{a},{b}", prog(a, (a, b), cond_on([b, a])), [{a: 1, b: 1}, {a: 1, b: 0}, {a: 0, b: 1}]
        yield f"pair-name:{a},{b}", prog(a, (b,), cond_on([b])), [{b: 1}, {b: 0}]


def triples(pool):
    for a, b, c in product(pool, repeat=3):
        if len({a, b, c}) == 3:
            yield f"triple:{a},{b},{c}", prog("exp", (a, b), cond_on([b, c])), [{a: 1, b: 1, c: 1}, {a: 1, b: 1, c: 0}]


def sharing(names=("aa", "order_id", "index")):
    """every role pattern of 3 fields: S(plitter), C(ondition), B(oth), N(one)"""
    for roles in product("SCBN", repeat=3):
        split = [n for n, r in zip(names, roles) if r in "SB"]
        cond = [n for n, r in zip(names, roles) if r in "CB"]
        if not cond:
            c = ("ret", (("A", "1"), ("B", "2")))
        else:
            c = cond_on(cond)
        if not split and not cond:
            continue
        envs = [dict(zip(names, vs)) for vs in product((1, 0), repeat=3)]
        yield "sharing:" + "".join(roles), prog("exp", split, c), envs


def nested_tuples():
    ids = ["g", "order_id", "index"]
    shapes = [
        ("tup", (("id", "g"),)),
        ("tup", (("id", "g"), ("id", "order_id"))),
        ("tup", (("tup", (("id", "g"), ("lit", 1))), ("lit", 2))),
        ("tup", (("tup", (("tup", (("id", "index"), ("lit", "x"))), ("id", "g"))), ("lit", 3))),
        ("tup", (("lit", 1), ("tup", (("lit", 2), ("tup", (("lit", 3), ("id", "g"))))))),
        ("tup", (("tup", (("lit", -1),)), ("tup", (("lit", 2.5), ("lit", "s"))))),
    ]
    fvals = [1, 2, 3, (1, 1), ((1, "x"), 1), (2, (3, 1)), (-1,), (2.5, "s"), 7]
    for j, sh in enumerate(shapes):
        for op in ("in", "not in", "==", "!="):
            envs = [{"uid": 1, "f": fv, "g": 1, "order_id": 1, "index": 1} for fv in fvals]
            envs += [{"uid": 1, "f": (1,), "g": 1, "order_id": 1, "index": 1}, {"uid": 1, "f": (1, 1), "g": 1, "order_id": 1, "index": 1}]
            yield f"tuple{j}:{op}", prog("exp", ("uid",), ("if", ("cmp", ("id", "f"), op, sh), T, F)), envs
            yield f"tuple{j}:{op}:left", prog("exp", ("uid",), ("if", ("cmp", sh, op, ("id", "f")), T, F)), \
                [e for e in envs if op in ("==", "!=") or isinstance(e["f"], tuple)]  # fmt: skip


def big():
    """E-big: one program per size"""
    for n in list(range(1, 61)):
        # else-if chain of length n (n predicates), with and without final else
        c = None
        for k in reversed(range(n)):
            pred = ("cmp", ("id", "f"), "==", ("lit", k))
            if k == 0:
                c = ("if", pred, ("ret", ((f"r{k}", "1"),)), c)
            else:
                c = ("elif", pred, ("ret", ((f"r{k}", "1"),)), c)
        yield f"chain:{n}", prog("exp", ("uid",), c), [{"uid": 1, "f": k} for k in range(-1, n + 1)]
    for d in range(1, 13):
        c = ("ret", (("deep", "1"),))
        for k in reversed(range(d)):
            c = ("if", ("cmp", ("id", f"f{k}"), "==", ("lit", 1)), c, ("else", ("ret", ((f"e{k}", "1"),))) if k % 2 else None)
        envs = []
        for cut in range(d + 1):
            envs.append(dict({f"f{k}": (1 if k < cut else 0) for k in range(d)}, uid=1))
        yield f"nest:{d}", prog("exp", ("uid",), c), envs
    for n in range(1, 65):
        gs = tuple((f"g{i}", str(1 + i % 3)) for i in range(n))
        yield f"groups:{n}", prog("exp", ("uid",), ("ret", gs)), [{"uid": i} for i in range(8)]
    # combined sizes: a chain whose last branch body is itself a chain (nesting 2), chains inside deep nesting
    def chain(n, field, base, tail):
        c = tail
        for k in reversed(range(n)):
            pred = ("cmp", ("id", field), "==", ("lit", k))
            c = ("if" if k == 0 else "elif", pred, ("ret", ((f"{base}{k}", "1"),)), c)
        return c

    for n in (3, 20, 40, 55, 60):
        inner = chain(n, "g", "in", None)
        c = None
        for k in reversed(range(n)):
            pred = ("cmp", ("id", "f"), "==", ("lit", k))
            body = inner if k == n - 1 else ("ret", ((f"out{k}", "1"),))
            c = ("if" if k == 0 else "elif", pred, body, c)
        envs = [{"uid": 1, "f": n - 1, "g": g} for g in (0, n - 1, n)] + [{"uid": 1, "f": 0, "g": 0}, {"uid": 1, "f": n, "g": 0}]
        yield f"chain2:{n}", prog("exp", ("uid",), c), envs
    for d in (3, 6, 12):
        c = chain(8, f"f{d}", "leaf", None)
        for k in reversed(range(d)):
            c = ("if", ("cmp", ("id", f"f{k}"), "==", ("lit", 1)), c, ("else", chain(8, f"h{k}", f"e{k}_", None)))
        base = dict({f"f{k}": 1 for k in range(d + 1)}, **{f"h{k}": 0 for k in range(d)}, uid=1)
        envs = [dict(base, **{f"f{d}": v}) for v in (0, 7, 8)] + [dict(base, **{"f0": 0, "h0": v}) for v in (0, 7, 8)]
        yield f"nestchain:{d}", prog("exp", ("uid",), c), envs
    labels = ["Paris, FR", "a,b", "x = 1", "tab\t", "semi; colon", "quote'", "back\\slash", "{brace}", "%s", "#hash", "trailing ", " leading", "日本", "🎲",
              "a, b, c", ", ", "weights=[1]", "]", "population", "\\n", "None", "1", "1.5", "True"]
    for n in (3, 8, 9, 12, 24, 40, 64):
        gs = tuple((f"{labels[i % len(labels)]}#{i}", str(1 + i % 2)) for i in range(n))
        yield f"groups-labels:{n}", prog("exp", ("uid",), ("ret", gs)), [{"uid": i} for i in range(24)]
        gs2 = tuple(((i if i % 3 == 0 else (i + 0.5 if i % 3 == 1 else f"s, {i}")), "1") for i in range(n))
        yield f"groups-mixed:{n}", prog("exp", ("uid",), ("ret", gs2)), [{"uid": i} for i in range(24)]
    # beyond the stated bounds but cheap: flat lists whose length, not nesting, grows the parse stack
    for n in (120, 250):
        c = chain(n, "f", "r", None)
        yield f"chain:{n}", prog("exp", ("uid",), c), [{"uid": 1, "f": k} for k in (0, n - 1, n)]
    for n in (128, 300):
        yield f"groups:{n}", prog("exp", ("uid",), ("ret", tuple((f"g{i}", "1") for i in range(n)))), [{"uid": i} for i in range(6)]
    for n in (200, 600, 2000):
        yield f"tuple-len:{n}", prog("exp", ("uid",), ("if", ("cmp", ("id", "f"), "in", ("tup", tuple(("lit", k) for k in range(n)))), T, F)), \
            [{"uid": 1, "f": k} for k in (0, n - 1, n, 0.5)]  # fmt: skip
    for n in (200, 600):
        yield f"splitters:{n}", prog("exp", tuple(f"s{k}" for k in range(n)), ("ret", (("A", "1"), ("B", "1")))), [{f"s{k}": (k + j) for k in range(n)} for j in range(2)]
    # long MIXED boolean runs: a bracketed `or` at the bottom of a left-nested `and` run (and the mirror image); a renderer that
    # drops "redundant" parentheses of long runs changes the meaning.  Lengths up to 199 (Python's own nesting limit is 200).
    for n in (10, 59, 99, 100, 101, 120, 150, 199):
        for lo, hi in (("or", "and"), ("and", "or")):
            a, b = ("cmp", ("id", "a"), "==", ("lit", 1)), ("cmp", ("id", "b"), "==", ("lit", 1))
            p = (lo, a, b)
            for k in range(n - 1):
                p = (hi, p, ("cmp", ("id", "f"), "!=", ("lit", k)))
            envs = [{"uid": 1, "a": x, "b": y, "f": f} for x in (0, 1) for y in (0, 1) for f in (-1, 0, n - 2)]
            yield f"boolmix:{lo}-under-{hi}:{n}", prog("exp", ("uid",), ("if", p, T, F)), envs
            q = None  # right operand bracketed: f != 0 and (... and (a or b))
            q = (lo, a, b)
            for k in range(min(n, 60) - 1):
                q = (hi, ("cmp", ("id", "f"), "!=", ("lit", k)), q)
            yield f"boolmix-right:{lo}-under-{hi}:{n}", prog("exp", ("uid",), ("if", q, T, F)), envs
    # laziness: a comparison that is only type-correct behind its guard, written several times in one program (and / or
    # short-circuit, untaken branches): nothing may evaluate it early
    G = ("cmp", ("id", "kind"), "==", ("lit", "num"))
    V = ("cmp", ("id", "value"), ">", ("lit", 100))
    W = ("cmp", ("lit", "vip"), "in", ("id", "tags"))
    N = ("cmp", ("id", "n"), ">", ("lit", 0))
    R = lambda x: ("ret", ((x, "1"),))  # noqa: E731
    lazy_envs = [{"uid": 1, "kind": "num", "value": 150, "n": 1, "tags": ("vip",)}, {"uid": 1, "kind": "num", "value": 50, "n": 1, "tags": ()},
                 {"uid": 1, "kind": "txt", "value": "abc", "n": 0, "tags": None}, {"uid": 1, "kind": "none", "value": None, "n": 0, "tags": 5},
                 {"uid": 1, "kind": "txt", "value": None, "n": 2, "tags": "a vip b"}]
    yield "lazy:and-twice", prog("exp", ("uid",), ("if", ("and", G, V), R("A"), ("elif", ("or", ("and", G, V), ("and", N, W)), R("B"), ("else", R("C"))))), lazy_envs
    yield "lazy:nested-twice", prog("exp", ("uid",), ("if", G, ("if", V, R("A"), ("else", R("B"))), ("elif", ("and", N, W), R("C"), ("elif", ("and", N, W), R("D"), ("else", R("E")))))), lazy_envs
    yield "lazy:or-guard", prog("exp", ("uid",), ("if", ("or", ("not", G), V), R("A"), ("elif", ("or", ("not", G), V), R("B"), ("else", ("if", ("or", ("not", N), W), R("C"), None))))), lazy_envs
    yield "lazy:thrice", prog("exp", ("uid",), ("if", ("and", G, ("and", V, V)), R("A"), ("elif", ("and", ("and", N, W), ("and", N, W)), R("B"), ("elif", ("and", G, V), R("C"), None)))), lazy_envs
    big = 10**310 + 7
    for lit, vals in ((big, [big, big + 1, 1e308, float("inf")]), (-big, [-big, 0]), (2**64, [2**64, float(2**64)]), (10**100, [10**100, 1e100])):
        for op in ("==", "<", ">="):
            yield f"bigint:{op}", prog("exp", ("uid",), ("if", ("cmp", ("id", "f"), op, ("lit", lit)), T, F)), [{"uid": 1, "f": v} for v in vals]
            yield f"bigint-left:{op}", prog("exp", ("uid",), ("if", ("cmp", ("lit", lit), op, ("id", "f")), T, F)), [{"uid": 1, "f": v} for v in vals]
    yield "bigint:group", prog("exp", ("uid",), ("ret", ((big, "1"), (-big, "1")))), [{"uid": i} for i in range(8)]
    yield "bigint:tuple", prog("exp", ("uid",), ("if", ("cmp", ("id", "f"), "in", ("tup", (("lit", big), ("lit", 1)))), T, F)), [{"uid": 1, "f": big}, {"uid": 1, "f": 1}, {"uid": 1, "f": 2}]
    for n in (2, 5, 10, 20, 40, 60):
        for op in ("and", "or"):
            p = None
            for k in range(n):
                c = ("cmp", ("id", f"f{k}"), "==", ("lit", 1))
                p = c if p is None else (op, p, c)
            envs = [dict({f"f{k}": 1 for k in range(n)}, uid=1), dict({f"f{k}": 0 for k in range(n)}, uid=1),
                    dict({f"f{k}": (1 if k != n - 1 else 0) for k in range(n)}, uid=1)]  # fmt: skip
            yield f"boolchain:{op}:{n}", prog("exp", ("uid",), ("if", p, T, F)), envs
        yield f"splitters:{n}", prog("exp", tuple(f"s{k}" for k in range(n)), ("ret", (("A", "1"), ("B", "1")))), \
            [{f"s{k}": (k + j) for k in range(n)} for j in range(4)]  # fmt: skip
        yield f"tuple-len:{n}", prog("exp", ("uid",), ("if", ("cmp", ("id", "f"), "in", ("tup", tuple(("lit", k) for k in range(n)))), T, F)), \
            [{"uid": 1, "f": k} for k in (0, n - 1, n)]  # fmt: skip
