"""E-mut: token-level mutations of a base program."""
from __future__ import annotations

LEX = ["def", "salt", "splitters", "if", "else", "else if", "return", "weighted", "and", "or", "not", "in", "not in",
       "==", "!=", ">", "<", ">=", "<=", "(", ")", "{", "}", ",", ":", "-", "x", "1", "2.5", '"s"', "'t'", "notin", "isnot", "andnot", "ifnot", "0", "00", "0.0", '""']  # fmt: skip
ILLEGAL = ["=", ".", ";", "@", "$", "?", "!", "&", "|", "~", "[", "]", "\\", "#", "%", "^", "*", "/", "+", '"', "'",
           "\ufeff", "\u200b", "é", "—", "\u2060", "\x00", "\x7f", "\u00ad", "λ", "ı", "İ", "ſ", "\u212a", "ﬁ", "Ω", "\u00b5", "ª", "²", "\u0301", "\x08", "\x1b"]
JUNK = ["x", "1", "def", "}", "{", "garbage garbage", "def x {", "return", ";", '"s"', "def a { return 1 weighted 1 }",
        "/* c */ x", "// c\nx", ",", "}}", "weighted 1", "else { return 1 weighted 1 }"]  # fmt: skip


COMMENT_SEPS = ["\r", "\x0b", "\x0c", "\x1c", "\x1d", "\x1e", "\x85", "\u2028", "\u2029", " "]
WRAPS = [("/*/", "/* */"), ("/*/", "*/"), ("/*/", "/*/"), ("/*", "/* */"), ("/*/", "/**/"), ("/**/", "*/"), ("/*/ /*/", "*/"), ("//*", "*/"), ("/*/", "// */\n")]


def mutants(lexs, depth1=True):
    """yields (kind, text) for every depth-1 mutation of the lexeme list"""
    n = len(lexs)
    J = " ".join
    for i in range(n):
        yield "delete", J(lexs[:i] + lexs[i + 1 :])
        yield "duplicate", J(lexs[: i + 1] + lexs[i:])
        if i + 1 < n:
            yield "swap", J(lexs[:i] + [lexs[i + 1], lexs[i]] + lexs[i + 2 :])
        for l in LEX:
            if l != lexs[i]:
                yield "replace", J(lexs[:i] + [l] + lexs[i + 1 :])
    for i in range(n + 1):
        for l in LEX:
            yield "insert", J(lexs[:i] + [l] + lexs[i:])
        for c in ILLEGAL:
            yield "illegal-spaced", J(lexs[:i] + [c] + lexs[i:])
            if i > 0:
                yield "illegal-glued", J(lexs[: i - 1] + [lexs[i - 1] + c] + lexs[i:])
            if i < n:
                yield "illegal-glued", J(lexs[:i] + [c + lexs[i]] + lexs[i + 1 :])
    # a stretch of tokens wrapped in comment delimiters of unusual shape: what the comment hides is decided by the first `*/`
    # after the opening `/*` (a `/*/` is an opening, not a whole comment)
    for i in range(n):
        for j in sorted({i + 1, i + 2, i + 4, n - 1, n} - set(range(i + 1))):
            if j > n:
                continue
            for op, cl in WRAPS:
                yield "comment-wrap", J(lexs[:i] + [op] + lexs[i:j] + [cl] + lexs[j:])
    # the tail of the text put behind a line comment, followed by characters that str.splitlines() treats as line ends but the
    # language does not (the comment runs to the next line feed): the tokens behind it stay commented out
    for i in sorted({1, 2, n // 2, n - 2, n - 1} & set(range(1, n))):
        for sep in COMMENT_SEPS:
            yield "comment-out", J(lexs[:i]) + " // note" + sep + J(lexs[i:])
            yield "comment-out", J(lexs[:i]) + " // note" + sep + J(lexs[i:]) + "\n"
    base = J(lexs)
    for j in JUNK:
        yield "prefix", j + " " + base
        yield "suffix", base + " " + j
        yield "suffix-nl", base + "\n" + j


def apply_all(lexs):
    """depth-1 mutants as lexeme lists (for depth-2 chaining): delete / duplicate / swap / replace / insert only"""
    n = len(lexs)
    for i in range(n):
        yield lexs[:i] + lexs[i + 1 :]
        yield lexs[: i + 1] + lexs[i:]
        if i + 1 < n:
            yield lexs[:i] + [lexs[i + 1], lexs[i]] + lexs[i + 2 :]
        for l in LEX:
            if l != lexs[i]:
                yield lexs[:i] + [l] + lexs[i + 1 :]
    for i in range(n + 1):
        for l in LEX + ILLEGAL:
            yield lexs[:i] + [l] + lexs[i:]
