"""E-op: comparison operators x operand forms x literal kinds x boundary field values."""
from __future__ import annotations

ORD_OPS = ["==", "!=", ">", "<", ">=", "<="]

# kind -> (literal, field values around it; all mutually comparable with the literal)
ORD_KINDS = {
    "int": (5, [4, 5, 6, 4.5, 5.0, 5.5, -5]),
    "special": (10.5, [10.5, 10, 11, float("nan"), float("inf"), float("-inf"), -0.0, 1e308, 5e-324]),
    "bigint": (2**53, [2**53, 2**53 + 1, 2**53 - 1, float(2**53), 2.0**53 + 2, float("nan")]),
    "negint": (-3, [-4, -3, -2, -3.5, -2.5, 3]),
    "zero": (0, [-1, 0, 1, 0.0, -0.5, 0.5]),
    "dec": (2.5, [2, 2.5, 3, 2.4999, 2.5001, -2.5]),
    "negdec": (-0.5, [-1, -0.5, 0, -0.5001, -0.4999, 0.5]),
    "str": ("m", ["l", "m", "n", "", "ma", "M", "m "]),
    "strnum": ("10", ["10", "9", "100", "1", "10 "]),
    "tup": ((1, 2), [(1, 2), (1, 1), (1, 3), (1,), (1, 2, 0), (0, 9)]),
    "tupstr": (("a", "b"), [("a", "b"), ("a",), ("a", "c"), ("a", "a", "z")]),
    # long all-constant tuples are still tuples everywhere (==, ordering, nesting), not sets
    "tup10": (tuple(range(10)), [tuple(range(10)), tuple(range(9)), tuple(range(11)), (0,), (9, 8, 7, 6, 5, 4, 3, 2, 1, 0), tuple(float(i) for i in range(10))]),
    # characters outside the Basic Multilingual Plane (an escaping renderer that writes surrogate pairs) and other non-ASCII
    "astral": ("𝒳", ["𝒳", "𝒴", "", "\ud835", "𝒳a", "x", "\ud835\udcb3"[:1] + "z", "🎲"]),
    "astral2": ("a🎲b", ["a🎲b", "a🎲", "a🎲c", "ab", "a\ud83cb", "A🎲B"]),
    "nonascii": ("é日", ["é日", "e日", "é", "é日本", "e\u0301日", "É日"]),
    # tuples shaped like the keyword records of syntax-tree nodes
    "tup-record": ((("id", 7), ("name", "bob")), [(("id", 7), ("name", "bob")), (("id", 7),), (("id", 7), ("name", "bo")), (("id", 8), ("name", "bob")), (("id", 7), ("name", "bob"), ("z", 0))]),
    "tup-name": ((("name", "g"),), [(("name", "g"),), (("name", "f"),), (("name",),), (("name", "g"), ("a", "b"))]),
    # strings whose first / last character is a quote of the other style (a careless un-quoting strips them)
    "quote-edged": ("users'", ["users'", "users", "'users'", "users''", "'users", "Users'"]),
    "quote-edged2": ('"beta"', ['"beta"', "beta", '"beta', "'beta'", 'beta"']),
    # a literal spelled exactly like the field it is compared with / like the other field (f and g are the field names of E-op)
    "fieldname": ("f", ["f", "g", "ff", "", "F"]),
    "fieldname2": ("g", ["g", "f", "gg", " g"]),
    "tup12mixed": ((1, "a", 2.5, "b", 3, "c", 4, "d", 5, "e", 6, "f"), [(1, "a", 2.5, "b", 3, "c", 4, "d", 5, "e", 6, "f"), (1, "a")]),
}

# container literal -> candidate members / non-members (hashable, comparable by ==)
IN_KINDS = {
    "ints": ((1, 2, 3), [1, 2, 3, 0, 4, 2.0, "1"]),
    "strs": (("a", "b"), ["a", "b", "c", "", "ab"]),
    "mixed": ((1, "a", 2.5), [1, "a", 2.5, 2, "1", 2.50001]),
    "nested": (((1, 2), (3, 4)), [(1, 2), (3, 4), (1, 3), 1, (1, 2, 0)]),
    "single": ((7,), [7, 8, (7,), 7.0]),
    "neg": ((-1, -2.5, "x"), [-1, -2.5, "x", 1, 2.5]),
    "deep": ((1, (2, (3, 4))), [1, (2, (3, 4)), (3, 4), 2]),
    # a string literal on the right of in / not in: Python's substring test
    "strlit": ("france", ["fr", "france", "x", "", "ance", "f", "rf", "France"]),
    "strlit1": ("a", ["a", "", "b", "aa"]),
    "strlit0": ("", ["", "a"]),
    # long gap-free integer tuples (a tempting "range check" rewrite) and a long one with a gap
    "run8": (tuple(range(3, 11)), [3, 10, 2, 11, 6.5, 6.0, 3.0000001, "6", float("nan"), float("inf"), None]),
    "run10": (tuple(range(3, 13)), [3, 12, 13, 7.5, 7.0, -7, "7", float("nan")]),
    "run40": (tuple(range(0, 40)), [0, 39, 40, -1, 20.5, 20.0, "20", float("nan")]),
    "gap9": ((1, 2, 3, 4, 6, 7, 8, 9, 10), [5, 4, 6, 5.0, 4.5, 0, 11]),
    "strs9": (tuple("abcdefghi"), ["a", "i", "j", "", "ab", "A"]),
    "negrun": (tuple(range(-4, 5)), [-4, 4, -5, 5, 0.5, -0.0, 0]),
    "nested-run10": ((tuple(range(10)), "zz"), [tuple(range(10)), "zz", 5, tuple(range(9)), (tuple(range(10)),)]),
    "run10-lists": (tuple(range(10)), [[1], [], (1,), 3, "3"]),
    # tuples of pairs that look like the keyword arguments of an AST node (a validator that tries dict(...) on them)
    "pairs-name": ((("name", "uid"), ("a", "b")), [("name", "uid"), ("a", "b"), "uid", "name", ("name",)]),
    "pairs-name1": ((("name", "f"),), [("name", "f"), "f", ("name",), "name"]),
    "pairs-group": ((("group_definition", "x"), ("group_weight", 1)), [("group_definition", "x"), ("group_weight", 1), "x", 1]),
    "pairs-pred": ((("left_term", 1), ("logical_operator", 1), ("right_term", 1)), [("left_term", 1), 1, ("right_term", 1)]),
    "pairs-id": ((("id", "e"), ("splitting_fields", "u"), ("salt", "s"), ("conditions", 1)), [("id", "e"), ("salt", "s"), "e"]),
}

# run-time containers passed as field values (right operand of in / not in is a field)
RT_CONTAINERS = [
    ("abc", ["a", "bc", "d", "", "abc"]),
    ((1, 2), [1, 2, 3, 1.0]),
    ([1, "a"], [1, "a", 2]),
    (frozenset({1, 2}), [1, 2, 3]),
    ({"k": 1}, ["k", 1]),
    ((), [1]),
]


def expressible(v):
    """can v be written as a DSL literal?"""
    import math

    if isinstance(v, bool) or v is None:
        return False
    if isinstance(v, float):
        return math.isfinite(v)
    if isinstance(v, tuple):
        return len(v) > 0 and all(expressible(x) for x in v)
    if isinstance(v, str):
        if any(0xD800 <= ord(ch) <= 0xDFFF for ch in v):
            return False  # a source text with a lone surrogate has no UTF-8 form: outside the language
        return "\n" not in v and not ('"' in v and "'" in v)
    return isinstance(v, int)


def term_of(v):
    if isinstance(v, str):
        return ("lit", v)
    if isinstance(v, tuple):
        return ("tup", tuple(term_of(x) for x in v))
    return ("lit", v)


def op_cases():
    """yields (tag, pred_ast, [env, ...]); env maps condition fields only."""
    F, G = ("id", "f"), ("id", "g")
    for kind, (lit, vals) in ORD_KINDS.items():
        L = term_of(lit)
        for op in ORD_OPS:
            yield (f"{kind}:f{op}lit", ("cmp", F, op, L), [{"f": v} for v in vals])
            yield (f"{kind}:lit{op}f", ("cmp", L, op, F), [{"f": v} for v in vals])
            yield (f"{kind}:f{op}g", ("cmp", F, op, G), [{"f": a, "g": b} for a in vals for b in vals])
            for v2 in [x for x in vals if expressible(x)][:4]:
                yield (f"{kind}:lit{op}lit", ("cmp", L, op, term_of(v2)), [{}])
    for kind, (cont, vals) in IN_KINDS.items():
        C = term_of(cont)
        for op in ("in", "not in"):
            yield (f"{kind}:f {op} LIT", ("cmp", F, op, C), [{"f": v} for v in vals])
            for v in [x for x in vals if expressible(x)]:
                yield (f"{kind}:lit {op} LIT", ("cmp", term_of(v), op, C), [{}])
            # tuple literal holding identifiers: f in (g, 2)  -- grammar: term -> ID inside tuples
            lit2 = next(x for x in vals[1:] + vals[:1] if expressible(x))
            yield (f"{kind}:f {op} (g,lit)", ("cmp", F, op, ("tup", (G, term_of(lit2)))),
                   [{"f": a, "g": b} for a in vals for b in vals if not isinstance(b, (list, dict))])  # fmt: skip
    for cont, vals in RT_CONTAINERS:
        for op in ("in", "not in"):
            yield (f"rt:{type(cont).__name__}:f {op} g", ("cmp", F, op, G), [{"f": v, "g": cont} for v in vals])
            for v in [x for x in vals if expressible(x)]:
                yield (f"rt:{type(cont).__name__}:lit {op} g", ("cmp", term_of(v), op, G), [{"g": cont}])


# atoms for the cross product with boolean trees: one per operator, each with 3 field values
# giving (True/False mixes) around its boundary
CROSS_ATOMS = [
    ("==", ("lit", 5), [4, 5, 6]),
    ("!=", ("lit", "a"), ["a", "b", ""]),
    (">", ("lit", 2.5), [2.5, 2.6, 2, float("nan")]),
    ("<", ("lit", -3), [-4, -3, -2, float("nan")]),
    (">=", ("lit", 18), [17, 18, 19, float("nan")]),
    ("<=", ("lit", 0), [-1, 0, 1, float("nan")]),
    ("in", ("tup", (("lit", 1), ("lit", "x"))), [1, "x", 2]),
    ("not in", ("tup", (("lit", 1), ("lit", "x"))), [1, "x", 2]),
]
