"""E-shape and E-pred: exhaustive enumeration of conditional shapes and boolean trees."""
from __future__ import annotations

from functools import lru_cache
from itertools import product


# ---------------------------------------------------------------- E-shape
# skeletons use placeholders: predicates 'P', returns 'R'; numbering happens afterwards.
@lru_cache(maxsize=None)
def _C(n):
    """all conditionals with exactly n predicates"""
    if n == 0:
        return (("R",),)
    out = []
    for a in range(n):
        for body in _C(a):
            for sub in _S(n - 1 - a):
                out.append(("if", body, sub))
    return tuple(out)


@lru_cache(maxsize=None)
def _S(n):
    """all sub-conditionals (what follows a closed if-block) with exactly n predicates"""
    out = [("else", b) for b in _C(n)]
    if n == 0:
        out.append(None)
    else:
        for a in range(n):
            for body in _C(a):
                for sub in _S(n - 1 - a):
                    out.append(("elif", body, sub))
    return tuple(out)


def _number(sk, ctr):
    """skeleton -> reference AST conditional; predicate k is `p<k> == 1`, return j has the
    single group 'r<j>' weighted 1."""
    if sk is None:
        return None
    if sk[0] == "R":
        j = ctr["r"]
        ctr["r"] += 1
        return ("ret", ((f"r{j}", "1"),))
    if sk[0] == "else":
        return ("else", _number(sk[1], ctr))
    k = ctr["p"]
    ctr["p"] += 1
    pred = ("cmp", ("id", f"p{k}"), "==", ("lit", 1))
    body = _number(sk[1], ctr)
    sub = _number(sk[2], ctr)
    return (sk[0], pred, body, sub)


def shapes(n):
    """numbered reference conditionals with exactly n predicates"""
    for sk in _C(n):
        yield _number(sk, {"p": 0, "r": 0})


def count_shapes(n):
    return len(_C(n))


def prog_of(cond, name="e", salt=None, split=("u",)):
    return ("prog", name, salt, tuple(split) if split else None, cond)


def assignments(names, values=(1, 0)):
    for vs in product(values, repeat=len(names)):
        yield dict(zip(names, vs))


# ---------------------------------------------------------------- E-pred
@lru_cache(maxsize=None)
def _T(n):
    """boolean trees with exactly n atoms; every node (atom or operator) optionally negated
    once.  Atoms are placeholders 'A'."""
    if n == 1:
        base = [("A",)]
    else:
        base = []
        for a in range(1, n):
            for l in _T(a):
                for r in _T(n - a):
                    base.append(("and", l, r))
                    base.append(("or", l, r))
    out = []
    for b in base:
        out.append(b)
        out.append(("not", b))
    return tuple(out)


def _number_pred(t, ctr, atom):
    if t[0] == "A":
        k = ctr[0]
        ctr[0] += 1
        return atom(k)
    if t[0] == "not":
        return ("not", _number_pred(t[1], ctr, atom))
    return (t[0], _number_pred(t[1], ctr, atom), _number_pred(t[2], ctr, atom))


def default_atom(k):
    return ("cmp", ("id", f"x{k}"), "==", ("lit", 1))


def preds(n, atom=default_atom):
    for t in _T(n):
        yield _number_pred(t, [0], atom)


def count_preds(n):
    return len(_T(n))
