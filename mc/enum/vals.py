"""E-val: field values of every type the properties list; E-ids: realistic unit-id families."""
from __future__ import annotations

import uuid

STRS = ["", "a", "1", "é", "josé", "日本語", "𝒳", "\x00", "a\x00b", "'", '"', "\\", "\n", " ",
        "user@example.com", "00000042", "x" * 10_000]  # fmt: skip
# long values that differ only behind a common prefix of a "round" length (truncated / windowed hashing)
for _n in (63, 64, 127, 128, 255, 256, 1023, 1024, 4095, 4096, 65535, 65536):
    STRS += ["q" * _n + "a", "q" * _n + "b"]
LONG = "y" * 1_000_000
INTS = [0, 1, -1, 42, 2**31, 2**63, 2**64, 10**100, 10**4000]
FLOATS = [0.0, -0.0, 1.0, 1.5, 0.1, 1e308, 5e-324, float("inf"), float("-inf"), float("nan")]
OTHERS = [True, False, None]

# values of other types a caller may pass as a unit id: their str() is their key like anyone else's (a formatting shortcut such as
# '%s' % (uid) would unpack a tuple, f-string / format specs would treat some specially)
from decimal import Decimal  # noqa: E402
from fractions import Fraction  # noqa: E402

OBJECTS = [(17,), ("acme", 17), (), ((1, 2),), [1, 2], [], {"a": 1}, {}, frozenset({1}), b"x", bytearray(b"x"), Fraction(1, 3), Decimal("1.50"), 1 + 2j, range(3),
           ("%s",), ("{0}", 1), {"uid": 1}]  # fmt: skip
import sys as _sys  # noqa: E402

if _sys.flags.bytes_warning:  # python -b / -bb: str(bytes) itself warns / raises there - Python's doing, not the library's
    OBJECTS = [o for o in OBJECTS if not isinstance(o, (bytes, bytearray))]

ALL = STRS + INTS + FLOATS + OTHERS + OBJECTS

# pairs that print identically and therefore must share a bucket
SAME_STR = [(1, "1"), (1.0, "1.0"), (True, "True"), (None, "None"), (float("nan"), "nan"), (-1, "-1"),
            (0.1, "0.1"), (10**100, str(10**100)), (1e308, "1e+308")]  # fmt: skip

SMALL = ["", "a", "é", 0, 1, -1, 1.5, True, None]


def id_family(name: str, i: int):
    if name == "int":
        return i
    if name == "intstr":
        return str(i)
    if name == "zpad":
        return f"{i:08d}"
    if name == "uuid":
        return str(uuid.uuid5(uuid.NAMESPACE_DNS, f"user{i}.example.com"))
    if name == "email":
        return f"user{i}@example.com"
    if name == "email2":
        return f"first.last{i}@mail.org"
    raise KeyError(name)


FAMILIES = ["int", "intstr", "zpad", "uuid", "email", "email2"]
