"""X-sched: stateless exploration of thread interleavings of the REAL code under a controlled
(cooperative, baton-passing) scheduler.

Exactly one managed thread runs at a time.  A thread reaches a *scheduling point* and asks the
scheduler whether to continue or hand the baton over.  Points come from
  attr   every read/write of a watched data attribute of ExperimentEvaluator (class-level
         __getattribute__/__setattr__ wrappers installed by the harness),
  line   sys.monitoring LINE events on the code objects of the selected first-party files,
  instr  sys.monitoring INSTRUCTION events on the same code objects.
Exploration is a DFS by schedule prefix (replay the prefix, then always continue the running
thread) with preemption bounding; a switch at a thread's exit is free.  A divergence while
replaying a prefix is a hard harness fault, never a VIOLATION.
"""
from __future__ import annotations

import os
import sys
import threading
import time

from . import impl
from .common import HarnessFault

mon = sys.monitoring
TOOL = 4  # a free tool id (0 debugger, 1 coverage, 2 profiler, 5 optimizer)


class Deadlock(Exception):
    pass


class Execution:
    """one run of the harness bodies under one schedule"""

    def __init__(self, nthreads, prefix):
        self.prefix = prefix
        self.n = nthreads
        self.sems = [threading.Semaphore(0) for _ in range(nthreads)]
        self.done = [False] * nthreads
        self.all_done = threading.Event()
        self.points = []  # (tid, loc, n_enabled, choice, is_exit)
        self.idents = {}
        self.current = None
        self.fault = None
        self.clock = 0
        self.events = []  # op-level history: (tid, 'inv'|'res', op, value, clock)
        self.errors = {}
        self.log = []
        self.callcount = {}
        self.blocked = [None] * nthreads  # lock a thread waits for (scheduler-aware locks)
        self.deadlock = False

    # ---- called by the running managed thread
    def point(self, loc):
        tid = self.idents.get(threading.get_ident())
        if tid is None or tid != self.current or self.fault:
            return
        others = [t for t in range(self.n) if not self.done[t] and t != tid and self.blocked[t] is None]
        if not others:
            return
        order = [tid] + others
        self._choose(tid, loc, order, False)

    def block(self, tid, lock, can_timeout=False):
        """the running thread cannot take `lock`: hand the baton to another enabled thread (forced, free).
        can_timeout: the wait is a TIMED one - the timer firing before the lock is released is one more answer of the
        environment (the last alternative of this point); returns "timeout" then, and the thread keeps running."""
        if self.deadlock:
            raise Deadlock("deadlock")
        self.blocked[tid] = lock
        others = [t for t in range(self.n) if not self.done[t] and t != tid and self.blocked[t] is None]
        if not others and not can_timeout:
            self._deadlock()
            raise Deadlock(f"thread {tid} waits for a lock that no runnable thread can release")
        i = len(self.points)
        c = 0
        nopt = len(others) + (1 if can_timeout else 0)
        if i < len(self.prefix):
            c = self.prefix[i]
            if c >= nopt:
                self.fault = f"divergence: prefix choice {c} at blocking point {i} but only {nopt} enabled"
                c = 0
        if c >= len(others):  # the timer fires
            self.blocked[tid] = None
            self.points.append((tid, "timed-wait-expires", nopt, c, True, tid))
            self.clock += 1
            return "timeout"
        target = others[c]
        self.points.append((tid, "blocked", nopt, c, True, target))
        self.clock += 1
        self.current = target
        self.sems[target].release()
        self.sems[tid].acquire()
        if self.deadlock:
            raise Deadlock("deadlock")

    def unblock(self, lock):
        for t in range(self.n):
            if self.blocked[t] is lock:
                self.blocked[t] = None

    def _deadlock(self):
        self.deadlock = True
        for t in range(self.n):
            if self.blocked[t] is not None and not self.done[t]:
                self.blocked[t] = None
                self.sems[t].release()

    def _choose(self, tid, loc, order, is_exit):
        i = len(self.points)
        c = 0
        if i < len(self.prefix):
            c = self.prefix[i]
            if c >= len(order):
                self.fault = f"divergence: prefix choice {c} at point {i} but only {len(order)} enabled ({loc})"
                c = 0
        target = order[c]
        self.points.append((tid, loc, len(order), c, is_exit, target))
        self.clock += 1
        if target != tid:
            self.current = target
            self.sems[target].release()
            if not is_exit:
                self.sems[tid].acquire()

    def finish(self, tid):
        self.done[tid] = True
        alive = [t for t in range(self.n) if not self.done[t]]
        if not alive:
            self.current = None
            self.all_done.set()
            return
        if self.deadlock:
            return  # every blocked thread was already released to die with Deadlock
        others = [t for t in alive if self.blocked[t] is None]
        if not others:
            self._deadlock()  # the remaining threads all wait for locks nobody will release
            return
        self._choose(tid, "exit", others, True)

    # ---- op-level history (for linearizability)
    def inv(self, tid, op):
        self.clock += 1
        self.events.append((tid, "inv", op, None, self.clock))

    def res(self, tid, op, value):
        self.clock += 1
        self.events.append((tid, "res", op, value, self.clock))


_EXEC = None  # the execution in progress (process-global: one at a time)


def _line_cb(code, line):
    ex = _EXEC
    if ex is not None:
        ex.point((code.co_name, line))


def _call_cb(code, offset):
    """function-entry granularity with a stride (used when line granularity would give too many points)"""
    ex = _EXEC
    if ex is not None:
        tid = ex.idents.get(threading.get_ident())
        if tid is not None:
            n = ex.callcount.get(tid, 0) + 1
            ex.callcount[tid] = n
            if n % CALL_STRIDE[0] == 0:
                ex.point((code.co_name, "call", n))


CALL_STRIDE = [1]


def _instr_cb(code, offset):
    ex = _EXEC
    if ex is not None:
        ex.point((code.co_name, "i", offset))


def _codes_of_module(mod):
    import types

    seen, out = set(), []

    def walk(c):
        if id(c) in seen:
            return
        seen.add(id(c))
        out.append(c)
        for k in c.co_consts:
            if isinstance(k, types.CodeType):
                walk(k)

    for v in list(vars(mod).values()):
        if isinstance(v, types.FunctionType) and v.__module__ == mod.__name__:
            walk(v.__code__)
        elif isinstance(v, type) and v.__module__ == mod.__name__:
            for cv in vars(v).values():
                f = getattr(cv, "__func__", cv)
                if isinstance(f, types.FunctionType):
                    walk(f.__code__)
                elif isinstance(cv, property):
                    for g in (cv.fget, cv.fset):
                        if g is not None:
                            walk(g.__code__)
    return out


class SchedLock:
    """threading.Lock / RLock replacement that blocks through the scheduler (a real lock would hang the
    baton-passing scheme).  Outside a controlled execution it behaves like the real thing."""

    def __init__(self, reentrant=False):
        import _thread

        self._real = _thread.allocate_lock()
        self._reentrant = reentrant
        self._owner = None
        self._count = 0

    def acquire(self, blocking=True, timeout=-1):
        me = threading.get_ident()
        if self._reentrant and self._owner == me:
            self._count += 1
            return True
        ex = _EXEC
        tid = ex.idents.get(me) if ex is not None else None
        if tid is None:
            if blocking and timeout == -1:
                # outside a controlled execution (sequential epilogue of a harness): a lock that is still held now was left
                # behind by a thread that has finished - nobody will ever release it
                ok = self._real.acquire(True, 1.5)
                if not ok:
                    raise Deadlock("a lock is still held by a thread that has finished: this acquire would block forever")
            else:
                ok = self._real.acquire(blocking, timeout) if blocking else self._real.acquire(False)
            if ok:
                self._owner, self._count = me, 1
            return ok
        while True:
            ex.point(("lock-acquire", id(self) & 0xFFFF))
            if self._real.acquire(False):
                self._owner, self._count = me, 1
                return True
            if not blocking:
                return False
            if timeout is not None and timeout >= 0:
                if ex.block(tid, self, can_timeout=True) == "timeout":
                    return False
            else:
                ex.block(tid, self)

    def release(self):
        if self._reentrant and self._count > 1:
            self._count -= 1
            return
        self._owner, self._count = None, 0
        self._real.release()
        ex = _EXEC
        if ex is not None:
            ex.unblock(self)

    def locked(self):
        return self._real.locked()

    __enter__ = acquire

    def __exit__(self, *a):
        self.release()


class _ThreadingShim:
    """what first-party modules see as `threading` while instrumented"""

    def __init__(self, real):
        self._real = real

    def Lock(self):
        return SchedLock(False)

    def RLock(self):
        return SchedLock(True)

    def __getattr__(self, name):
        return getattr(self._real, name)


def _install_sched_locks(saved):
    """replace real locks reachable from first-party modules / classes / live evaluators' classes"""
    import _thread

    lock_types = (type(_thread.allocate_lock()), type(threading.RLock()))
    for mname, mod in list(sys.modules.items()):
        if not (mname == "pyab_experiment" or mname.startswith("pyab_experiment.")) or mod is None:
            continue
        for k, v in list(vars(mod).items()):
            if v is threading:
                saved.append((mod, k, v))
                setattr(mod, k, _ThreadingShim(threading))
            elif v is threading.Lock or v is threading.RLock:
                saved.append((mod, k, v))
                setattr(mod, k, (lambda r: (lambda: SchedLock(r)))(v is threading.RLock))
            elif isinstance(v, lock_types):
                saved.append((mod, k, v))
                setattr(mod, k, SchedLock(isinstance(v, lock_types[1])))
            elif isinstance(v, type) and getattr(v, "__module__", None) == mname:
                for ck, cv in list(vars(v).items()):
                    if isinstance(cv, lock_types):
                        saved.append((v, ck, cv))
                        setattr(v, ck, SchedLock(isinstance(cv, lock_types[1])))


CORE_MODULES = ["pyab_experiment.experiment_evaluator", "pyab_experiment.utils.wraper_functions", "pyab_experiment.binning.binning"]
DEEP_MODULES = CORE_MODULES + ["pyab_experiment.sly.lex", "pyab_experiment.sly.yacc", "pyab_experiment.language.lexer",
                               "pyab_experiment.language.grammar", "pyab_experiment.codegen.python.python_generator"]  # fmt: skip


class Instrument:
    """installs / removes the scheduling-point sources"""

    def __init__(self, mode="line", modules=CORE_MODULES, watch=("_checksum", "run_experiment")):
        self.mode = mode
        self.modules = modules
        self.watch = set(watch)
        self.codes = []
        self._saved = {}
        self.owner = {}  # id(obj) -> (obj, {tids}) for SLY / codegen instances (thread-confinement evidence)

    def __enter__(self):
        import importlib

        EV = impl.ExperimentEvaluator
        if self.mode in ("line", "instr", "call"):
            mon.use_tool_id(TOOL, "xsched")
            ev = {"line": mon.events.LINE, "instr": mon.events.INSTRUCTION, "call": mon.events.PY_START}[self.mode]
            mon.register_callback(TOOL, mon.events.LINE, _line_cb if self.mode == "line" else None)
            mon.register_callback(TOOL, mon.events.INSTRUCTION, _instr_cb if self.mode == "instr" else None)
            mon.register_callback(TOOL, mon.events.PY_START, _call_cb if self.mode == "call" else None)
            for m in self.modules:
                mod = importlib.import_module(m)
                for c in _codes_of_module(mod):
                    mon.set_local_events(TOOL, c, ev)
                    self.codes.append(c)
        # attribute hooks on the evaluator (always: they are the conflicting accesses)
        watch = self.watch
        orig_get, orig_set = EV.__getattribute__, EV.__setattr__
        self._saved["EV"] = (EV, "__getattribute__" in vars(EV), "__setattr__" in vars(EV), orig_get, orig_set)

        def _get(self_, name):
            if name in watch:
                ex = _EXEC
                if ex is not None:
                    ex.point(("attr-read", name))
            return orig_get(self_, name)

        def _set(self_, name, value):
            if name in watch:
                ex = _EXEC
                if ex is not None:
                    ex.point(("attr-write", name))
            return orig_set(self_, name, value)

        EV.__getattribute__ = _get
        EV.__setattr__ = _set
        self._locks = []
        _install_sched_locks(self._locks)
        # thread-confinement evidence for lexer / parser / code generator instances
        self._own_classes = []
        try:
            from pyab_experiment.codegen.python.python_generator import PythonCodeGen
            from pyab_experiment.sly.lex import Lexer
            from pyab_experiment.sly.yacc import Parser

            owner = self.owner
            for cls in (Lexer, Parser, PythonCodeGen):
                o = cls.__setattr__
                had = "__setattr__" in vars(cls)

                def mk(o):
                    def _s(self_, name, value):
                        ex = _EXEC
                        if ex is not None:
                            tid = ex.idents.get(threading.get_ident())
                            if tid is not None:
                                ent = owner.get(id(self_))
                                if ent is None:
                                    owner[id(self_)] = (self_, {tid})
                                else:
                                    ent[1].add(tid)
                        return o(self_, name, value)

                    return _s

                cls.__setattr__ = mk(o)
                self._own_classes.append((cls, had, o))
        except ImportError:
            pass
        return self

    def __exit__(self, *a):
        EV, had_g, had_s, og, os_ = self._saved["EV"]
        if had_g:
            EV.__getattribute__ = og
        else:
            del EV.__getattribute__
        if had_s:
            EV.__setattr__ = os_
        else:
            del EV.__setattr__
        for cls, had, o in self._own_classes:
            if had:
                cls.__setattr__ = o
            else:
                del cls.__setattr__
        for owner, k, v in self._locks:
            setattr(owner, k, v)
        if self.mode in ("line", "instr", "call"):
            for c in self.codes:
                mon.set_local_events(TOOL, c, 0)
            mon.register_callback(TOOL, mon.events.LINE, None)
            mon.register_callback(TOOL, mon.events.INSTRUCTION, None)
            mon.register_callback(TOOL, mon.events.PY_START, None)
            mon.free_tool_id(TOOL)

    def shared_instances(self):
        return [type(o).__name__ for o, tids in self.owner.values() if len(tids) > 1]


def run_schedule(make_bodies, prefix, timeout=20.0):
    """make_bodies() -> (bodies, ctx): bodies[i](ex, tid) runs in managed thread i.
    Returns (execution, ctx)."""
    global _EXEC
    bodies, ctx = make_bodies()
    ex = Execution(len(bodies), list(prefix))
    threads = []

    def wrap(tid):
        ex.idents[threading.get_ident()] = tid
        ex.sems[tid].acquire()
        try:
            bodies[tid](ex, tid)
        except BaseException as e:  # noqa
            ex.errors[tid] = f"{type(e).__name__}: {e}"
        finally:
            ex.finish(tid)

    for i in range(len(bodies)):
        t = threading.Thread(target=wrap, args=(i,), daemon=True)
        threads.append(t)
    _EXEC = ex
    try:
        for t in threads:
            t.start()
        while len(ex.idents) < len(bodies):
            time.sleep(0)
        # initial choice: which thread starts (free)
        order = list(range(len(bodies)))
        i0 = 0
        if len(ex.prefix) > 0:
            i0 = ex.prefix[0]
            if i0 >= len(order):
                ex.fault = "divergence at initial choice"
                i0 = 0
        ex.points.append((-1, "start", len(order), i0, True, order[i0]))
        ex.current = order[i0]
        ex.sems[order[i0]].release()
        if not ex.all_done.wait(timeout):
            ex.fault = ex.fault or f"deadlock/timeout: current={ex.current} done={ex.done} points={len(ex.points)}"
            # unblock everything so the threads can die
            _EXEC = None
            for s in ex.sems:
                s.release()
                s.release()
        for t in threads:
            t.join(timeout)
    finally:
        _EXEC = None
    return ex, ctx


def preemptions(points, upto=None):
    pts = points if upto is None else points[:upto]
    return sum(1 for (_t, _l, _n, c, is_exit, _g) in pts if c != 0 and not is_exit)


def exec_schedule(make_bodies, check, prefix, isolate=False):
    """run one schedule and check it -> (points, fault, violation|None).  With isolate=True the
    schedule runs in a forked child of this process (which must not have executed library code),
    so that state the library keeps at module level cannot leak from one execution to the next."""
    def one():
        ex, ctx = run_schedule(make_bodies, prefix)
        v = None if ex.fault else check(ex, ctx)
        return [tuple(p) for p in ex.points], ex.fault, v

    if isolate:
        from .xlife import in_child

        return in_child(one)
    return one()


VISITS_MAX = [0]


def explore(make_bodies, check, bound, prefix=(), stats=None, cap=None, isolate=False):
    """DFS from `prefix`.  check(ex, ctx) -> None | violation dict.  Returns list of violations.
    stats: dict updated with schedules / points / preemption histogram."""
    stats = stats if stats is not None else {}
    viols = []
    stack = [list(prefix)]
    while stack:
        pre = stack.pop()
        if cap is not None and stats.get("schedules", 0) >= cap:
            stats["cap_hit"] = True
            break
        points, fault, v = exec_schedule(make_bodies, check, pre, isolate)
        if fault:
            raise HarnessFault(f"schedule {pre}: {fault}")
        stats["schedules"] = stats.get("schedules", 0) + 1
        stats["points"] = stats.get("points", 0) + len(points)
        npre = preemptions(points)
        stats[f"preemptions_{npre}"] = stats.get(f"preemptions_{npre}", 0) + 1
        if "owner_seqs" in stats:
            stats["owner_seqs"].append(tuple(p[5] for p in points))
        if v is not None:
            v = dict(v)
            v["schedule"] = [p[3] for p in points]
            v["preemptions"] = npre
            viols.append(v)
            if len(viols) >= 5:
                break
        choices = [p[3] for p in points]
        visits = {}
        for i in range(len(points)):
            _tid, _loc, n_en, _c, is_exit, _g = points[i]
            visits[(_tid, _loc)] = visits.get((_tid, _loc), 0) + 1
            if i < len(pre):
                continue
            cost = preemptions(points, i) + (0 if is_exit else 1)
            if cost > bound:
                continue
            if VISITS_MAX[0] and not is_exit and visits[(_tid, _loc)] > VISITS_MAX[0]:
                continue  # (stated bound of this exploration: deviations only at the first visits of a line by a thread)
            for alt in range(1, n_en):
                stack.append(choices[:i] + [alt])
    return viols


# ---------------------------------------------------------------- linearizability (brute force)
def history_ops(ex):
    """-> list of ops {tid, op, value, inv, res}"""
    ops, open_ = [], {}
    for tid, kind, op, value, clk in ex.events:
        if kind == "inv":
            open_[tid] = {"tid": tid, "op": op, "inv": clk, "res": None, "value": None}
            ops.append(open_[tid])
        else:
            open_[tid]["res"] = clk
            open_[tid]["value"] = value
    return ops


def linearizable(ops, init_state, apply_model):
    """apply_model(state, op) -> (new_state, expected value).  Brute force over all orders that
    respect real-time precedence (a.res < b.inv  =>  a before b)."""
    n = len(ops)
    done = [False] * n

    def rec(state, k):
        if k == n:
            return True
        for i in range(n):
            if done[i]:
                continue
            # i may go next only if no other pending op finished before i was invoked
            if any((not done[j]) and j != i and ops[j]["res"] is not None and ops[j]["res"] < ops[i]["inv"] for j in range(n)):
                continue
            st, want = apply_model(state, ops[i]["op"])
            if want == ops[i]["value"]:
                done[i] = True
                if rec(st, k + 1):
                    return True
                done[i] = False
        return False

    return rec(init_state, 0)
