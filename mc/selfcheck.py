"""setup_cmd: self-checks of the reference model (a wrong oracle produces false alarms).

Nothing is built or downloaded: the framework is pure Python run by /venv/bin/python."""
from __future__ import annotations

import hashlib
import json
import os
import subprocess
import sys
from fractions import Fraction

from . import common
from .enum import shapes as esh
from .ref import lex as rl
from .ref import parse as rp
from .ref import sem


def main() -> int:
    n = 0
    # 1. pretty-printer / parser round trip on every enumerated AST (small bound)
    for L in range(1, 4):
        for p in esh.preds(L):
            a = esh.prog_of(("if", p, ("ret", (("T", "1"),)), ("else", ("ret", (("F", "1"),)))))
            for m in ("min", "full", "red"):
                assert rp.parse(rp.render(a, m)) == a, rp.render(a, m)
                n += 1
    for P in range(0, 5):
        for c in esh.shapes(P):
            a = esh.prog_of(c)
            assert rp.parse(rp.render(a)) == a
            n += 1
    # 2. R-hash against RFC 1321 known answers
    for s, d in [("", "d41d8cd98f00b204e9800998ecf8427e"), ("a", "0cc175b9c0f1b6a831c399e269772661"),
                 ("abc", "900150983cd24fb0d6963f7d28e17f72"), ("message digest", "f96b697d7cb7938d525a2f31aaf161d0")]:  # fmt: skip
        assert sem.hash_k(s) == int(d[:8], 16), s
        n += 1
    assert sem.hash_key("s", ("b", "a"), {"a": 1, "b": "x"}) == "s1x"
    # 3. R-part against brute force on a coarse grid
    for ws in ([1, 1], [1, 2, 3], [0, 1], [1, 0, 1], [Fraction("0.5"), Fraction("0.1"), 7]):
        ws = [Fraction(w) for w in ws]
        T = sum(ws)
        for j in range(0, 4096):
            k = j << 20
            x = Fraction(k, 1 << 32) * T
            c, want = Fraction(0), None
            for i, w in enumerate(ws):
                if c <= x < c + w:
                    want = i
                c += w
            assert sem.part_exact(ws, k) == want
            n += 1
    # 4. reference lexer: the two readings on the C07 identifiers
    assert [t for t, _ in rl.tokenize("order_id index not_active android", "W")] == ["ID"] * 4
    assert rp.classify('def e { return "a" weighted 1 }')[0] == "accept"
    assert rp.classify('def e { return "a" weighted 1 } x')[0] == "reject"
    assert rp.classify('def e { return "a" weighted .5 }')[0] == "reject"
    # 5. the implementation under test is importable from the working tree
    common.bind_repo()
    # 6. MANIFEST validates (python3-vt has jsonschema; optional)
    man = os.path.join(common.VERIF, "MANIFEST.json")
    schema = "/root/.vp/MANIFEST.schema.json"
    if os.path.exists(schema) and os.path.exists(man):
        code = ("import json,jsonschema,sys;"
                f"jsonschema.validate(json.load(open({man!r})), json.load(open({schema!r})))")  # fmt: skip
        try:
            r = subprocess.run(["python3-vt", "-c", code], capture_output=True, text=True, timeout=60)
            if r.returncode != 0 and "jsonschema" not in r.stderr.split("\n")[-2]:
                print(r.stderr[-2000:])
                return 1
        except (FileNotFoundError, subprocess.TimeoutExpired):
            pass
    print(f"selfcheck ok: {n} reference obligations")
    return 0


if __name__ == "__main__":
    sys.exit(main())
