"""Known findings: loaded from /verif/known_findings.json, never written at run time."""
from __future__ import annotations

import json
import os

from .common import VERIF

_F = None


def load():
    global _F
    if _F is None:
        with open(os.path.join(VERIF, "known_findings.json")) as f:
            _F = json.load(f)
    return _F


def for_property(pid):
    return [f for f in load()["findings"] if f["property"] == pid]


def reserved_identifiers(pid="C07"):
    """identifier -> (finding id, roles in which the finding applies)"""
    out = {}
    for f in for_property(pid):
        for i in f.get("identifiers", []):
            out[i] = (f["id"], tuple(f.get("roles", ("name", "splitter", "condition"))))
    return out
