"""X-life: explicit-state breadth-first search over evaluator histories (new / recompile / call
over several evaluator slots), every transition executed on the real objects.

State key = (model state, implementation fingerprint).  The model knows, per slot, the key of
the last text the slot accepted (or None).  The fingerprint holds what the implementation
remembers (per evaluator: every instance attribute, compiled functions hashed by code object;
globally: a digest of module-level mutable state of pyab_experiment.*).  Two histories are merged
only if both coincide, so hidden state that could make futures differ is part of the key.
Live objects cannot be copied: a state is re-created by replaying its (shortest) history on
fresh objects; a divergence while replaying a recorded prefix is a hard harness error."""
from __future__ import annotations

import hashlib
import os
import sys
import types
import zlib

from . import impl
from .common import HarnessFault, enc, pmap, short

ExperimentEvaluator = impl.ExperimentEvaluator


# ---------------------------------------------------------------- fingerprints
def _code_digest(fn):
    c = getattr(fn, "__code__", None)
    if c is None:
        return repr(type(fn))
    parts = [c.co_code, repr(c.co_names).encode(), repr(c.co_varnames).encode()]
    for k in c.co_consts:
        parts.append(_code_digest_const(k))
    for cell in fn.__closure__ or ():
        try:
            parts.append(repr(cell.cell_contents).encode()[:200])
        except ValueError:
            parts.append(b"<empty>")
    return hashlib.md5(b"|".join(parts)).hexdigest()[:12]


def _code_digest_const(k):
    if isinstance(k, types.CodeType):
        return k.co_code + repr(k.co_names).encode() + b"".join(_code_digest_const(x) for x in k.co_consts)
    return repr(k).encode()


def obj_fingerprint(obj):
    if obj is None:
        return None
    out = []
    d = dict(vars(type(obj)))
    d = {k: v for k, v in d.items() if not callable(v) and not k.startswith("__")}
    d.update(vars(obj))
    for k in sorted(d):
        v = d[k]
        out.append((k, _code_digest(v) if callable(v) else short(repr(v), 80)))
    return tuple(out)


def global_fingerprint():
    """digest of module-level / class-level mutable state of first-party modules"""
    items = []
    for mname in sorted(sys.modules):
        if not (mname == "pyab_experiment" or mname.startswith("pyab_experiment.")):
            continue
        mod = sys.modules[mname]
        if mname.startswith("pyab_experiment.sly"):
            # vendored runtime: only small mutable containers kept at class level (e.g. parser stacks hoisted to the class)
            for k, v in sorted(vars(mod).items()):
                if isinstance(v, type) and getattr(v, "__module__", None) == mname:
                    for ck, cv in sorted(vars(v).items()):
                        if not ck.startswith("__") and isinstance(cv, (list, dict, set)) and len(cv) < 200 and not ck.startswith("_"):
                            items.append(_summ(mname + "." + k, ck, cv))
            continue
        for k, v in sorted(vars(mod).items()):
            if k.startswith("__"):
                continue
            items.append(_summ(mname, k, v))
            if isinstance(v, type) and getattr(v, "__module__", None) == mname:
                for ck, cv in sorted(vars(v).items()):
                    if ck.startswith("__"):
                        continue
                    if ck in ("_lrtable", "_grammar", "_rules", "_master_re", "_attributes", "_token_funcs"):
                        items.append((mname + "." + k, ck, "heavy", type(cv).__name__))  # e.g. None -> LRTable (lazy build)
                        continue
                    items.append(_summ(mname + "." + k, ck, cv))
    return zlib.crc32(repr([i for i in items if i]).encode())


def _summ(owner, k, v):
    if hasattr(v, "cache_info"):
        try:
            return (owner, k, "cache", tuple(v.cache_info()))
        except Exception:  # noqa
            return (owner, k, "cache?")
    if isinstance(v, (dict, list, set, bytearray)):
        try:
            body = repr(sorted(v.items()) if isinstance(v, dict) else sorted(v, key=repr) if isinstance(v, set) else v)
        except Exception:  # noqa
            body = str(len(v))
        return (owner, k, type(v).__name__, len(v), zlib.crc32(body.encode()))
    if isinstance(v, (types.FunctionType, type, types.ModuleType, types.BuiltinFunctionType)):
        return (owner, k, "ref", id(v))
    if isinstance(v, (str, int, float, bool, tuple, frozenset, type(None))):
        return (owner, k, "val", short(repr(v), 60))
    if (getattr(type(v), "__module__", "") or "").startswith("pyab_experiment") or hasattr(v, "__dict__") and not callable(v):
        # an object kept at module / class level (e.g. a cached lexer): its class (SLY swaps it!) and simple attributes
        try:
            attrs = sorted((a, short(repr(x), 40)) for a, x in vars(v).items() if isinstance(x, (str, int, float, bool, type(None), list, tuple, dict)))
        except TypeError:
            attrs = []
        return (owner, k, "obj", type(v).__name__, zlib.crc32(repr(attrs).encode()))
    return None


# ---------------------------------------------------------------- process isolation
def in_child(fn):
    """run fn() in a forked child (pristine copy of this process) and return its picklable result"""
    import pickle

    r, w = os.pipe()
    pid = os.fork()
    if pid == 0:
        code = 0
        try:
            os.close(r)
            try:
                out = ("ok", fn())
            except BaseException as e:  # noqa
                out = ("err", f"{type(e).__name__}: {e}")
            with os.fdopen(w, "wb") as f:
                pickle.dump(out, f)
        except BaseException:  # noqa
            code = 1
        finally:
            os._exit(code)
    os.close(w)
    with os.fdopen(r, "rb") as f:
        data = f.read()
    os.waitpid(pid, 0)
    if not data:
        raise HarnessFault("isolated child died without a result")
    kind, val = pickle.loads(data)
    if kind == "err":
        raise HarnessFault("isolated child failed: " + val)
    return val


# ---------------------------------------------------------------- the explorer
class Spec:
    def __init__(self, texts, inputs, slots=2, depth=4, reissue=True, ref_expected=None, ops=("new", "rec", "call", "copy")):
        self.texts = texts  # key -> text
        self.inputs = inputs  # list of env dicts
        self.slots = slots
        self.depth = depth
        self.reissue = reissue
        self.ref_expected = ref_expected  # optional: (text key, input index) -> outcome predicate
        self.ops = ops
        self.fresh = {}
        self.table = {}
        self.gfp0 = None
        self.isolate = False  # True: every replay and every fresh-evaluator table runs in a forked child
        self.copy_ok = {"c": False, "d": False}  # does copy.copy / copy.deepcopy of an evaluator work at all (measured in prepare)

    def prepare(self):
        """what a fresh evaluator of each text does (the differential oracle).  Always computed in a
        forked child, one per text, so that this process never executes library code and stays a
        pristine image to fork replays from."""
        self.gfp0 = global_fingerprint()
        self.prep_violations = []
        if "copy" in self.ops:
            self.copy_ok = in_child(self._copy_support)
        for k, t in self.texts.items():
            ok, tab, note = in_child(lambda t=t: self._fresh_one(t))
            self.fresh[k] = ok
            if ok:
                self.table[k] = tab
            if note:
                self.prep_violations.append({"kind": "life:two-fresh-evaluators", "history": [["new", 0, k], ["new", 1, k]], "text": t, "why": note})

    def _copy_support(self):
        """a clone made with copy.copy / copy.deepcopy is 'another evaluator' of the same text - if cloning is supported at all"""
        import copy

        out = {"c": False, "d": False}
        for t in self.texts.values():
            b = impl.build(t)
            if b[0] == "ok":
                for k, fn in (("c", copy.copy), ("d", copy.deepcopy)):
                    try:
                        fn(b[1])
                        out[k] = True
                    except Exception:  # noqa
                        out[k] = False
                break
        return out

    def _fresh_one(self, t):
        b = impl.build(t)
        if b[0] != "ok":
            b2 = impl.build(t)
            note = None if b2[0] != "ok" else "constructing an evaluator from this text raised the first time and succeeded the second time"
            return False, None, note
        tab = [self._norm(impl.call(b[1], x)) for x in self.inputs]
        b2 = impl.build(t)  # a second evaluator built from the same text in the same process must agree
        note = None
        if b2[0] != "ok":
            note = f"a second evaluator built from the same text raised {b2[1]} although the first construction succeeded"
        elif [self._norm(impl.call(b2[1], x)) for x in self.inputs] != tab:
            note = "two evaluators built from the same text in one process disagree on the probe inputs"
        return True, tab, note

    @staticmethod
    def _norm(out):
        return out[:2] if out[0] == "exc" else out

    def enabled(self, model):
        ops = []
        for s in range(self.slots):
            for k in self.texts:
                if "new" in self.ops:
                    ops.append(("new", s, k))
                if model[s] is not None and "rec" in self.ops:
                    ops.append(("rec", s, k))
            if model[s] is not None and "call" in self.ops:
                for xi in range(len(self.inputs)):
                    ops.append(("call", s, xi))
            if "copy" in self.ops:
                for src in range(self.slots):
                    if src != s and model[src] is not None:
                        ops += [("copy", s, f"{k}{src}") for k in ("c", "d") if self.copy_ok[k]]
        return ops

    # -- one real transition; returns observed outcome class
    def apply(self, objs, op):
        kind, s, a = op
        if kind == "copy":
            import copy

            try:
                objs[s] = (copy.copy if a[0] == "c" else copy.deepcopy)(objs[int(a[1:])])
                return ("ok",)
            except Exception as e:  # noqa
                return ("raise", type(e).__name__)
        if kind == "new":
            b = impl.build(self.texts[a])
            if b[0] == "ok":
                objs[s] = b[1]
                return ("ok",)
            return ("raise", b[1])
        if kind == "rec":
            try:
                from .common import quiet

                with quiet():
                    r = objs[s].recompile(self.texts[a])
                return ("ok",) if r is None else ("ok", short(repr(r), 40))
            except Exception as e:  # noqa
                return ("raise", type(e).__name__)
        out = impl.call(objs[s], self.inputs[a])
        return ("val", self._norm(out))

    def step_model(self, model, op):
        """-> (new model, expected outcome class)"""
        kind, s, a = op
        if kind == "copy":
            m = list(model)
            m[s] = model[int(a[1:])]
            return tuple(m), "ok"
        if kind in ("new", "rec"):
            if self.fresh[a]:
                m = list(model)
                m[s] = a
                return tuple(m), "ok"
            return model, "raise"
        return model, ("val", self.table[model[s]][a])

    def invariant(self, objs, model):
        """every evaluator behaves like a fresh evaluator of the last text it accepted"""
        bad = []
        for s, k in enumerate(model):
            if k is None:
                continue
            for xi, x in enumerate(self.inputs):
                got = self._norm(impl.call(objs[s], x))
                if got != self.table[k][xi]:
                    bad.append((s, k, xi, got, self.table[k][xi]))
        return bad

    def key(self, objs, model):
        return (model, tuple(obj_fingerprint(o) if model[i] is not None else None for i, o in enumerate(objs)), global_fingerprint() == self.gfp0)

    def run_history(self, hist, trace=None):
        """replay hist on fresh objects; if trace (recorded outcomes) is given, any divergence is a
        hard error.  Returns (objs, model, outcomes)."""
        objs = [None] * self.slots
        model = (None,) * self.slots
        outs = []
        for i, op in enumerate(hist):
            o = self.apply(objs, op)
            model, _ = self.step_model(model, op)
            outs.append(o)
            if trace is not None and i < len(trace) and trace[i] != o:
                raise HarnessFault(f"non-deterministic replay at step {i} of {hist}: recorded {trace[i]}, now {o}")
        return objs, model, outs


_SPEC = None


def _model_after(spec, hist):
    model = (None,) * spec.slots
    for op in hist:
        model, _ = spec.step_model(model, op)
    return model


def _one_transition(spec, hist, trace, op):
    """replay hist, execute op (and its re-issue), evaluate the invariant.  Picklable result."""
    objs, model0, outs = spec.run_history(hist, trace)
    n_tr = 1
    got = spec.apply(objs, op)
    model1, want = spec.step_model(model0, op)
    # the canonical key is taken right after the operation, BEFORE the invariant's probe calls touch the evaluators: a history
    # is extended by replaying its operations only, so "has been called" must be visible as a different state (an attribute
    # cached at the first call)
    key0 = spec.key(objs, model1)
    viol = None
    if op[0] == "call":
        if got != want:
            viol = f"call returned {got[1]!r}; a fresh evaluator of text {model0[op[1]]!r} returns {want[1]!r}"
    elif got[0] != want:
        viol = f"{op[0]}({op[2]}) outcome {got}; a fresh construction from that text {'succeeds' if want == 'ok' else 'raises'}"
    bad = spec.invariant(objs, model1) if viol is None else []
    if bad and viol is None:
        s, k, xi, g, w = bad[0]
        viol = f"after {op}: evaluator in slot {s} (last accepted text {k!r}) returns {g!r} for input {xi}; a fresh evaluator of that text returns {w!r}"
    if viol is None and spec.reissue and op[0] != "call":
        n_tr += 1
        got2 = spec.apply(objs, op)
        model2, want2 = spec.step_model(model1, op)
        if got2[0] != want2:
            viol = f"re-issuing {op[0]}({op[2]}) gave {got2}, the first time {got}: {'must raise every time' if want2 == 'raise' else 'must be a no-op'}"
        else:
            bad = spec.invariant(objs, model2)
            if bad:
                s, k, xi, g, w = bad[0]
                viol = f"after re-issuing {op}: slot {s} (text {k!r}) returns {g!r} for input {xi}, fresh: {w!r}"
    key = None if viol else key0
    return {"viol": viol, "got": got, "key": key, "outs": outs + [got], "n_tr": n_tr,
            "probes": sum(1 for m in model1 if m is not None) * len(spec.inputs)}  # fmt: skip


def _expand(units):
    """worker: expand frontier states.  unit = (history, trace)"""
    spec = _SPEC
    if spec.gfp0 is None:
        spec.prepare()
    res = {"cov": {}, "viol": [], "outcomes": [], "samples": [], "known": {}, "next": []}
    cov = res["cov"]

    def add(k, n=1):
        cov[k] = cov.get(k, 0) + n

    for hist, trace in units:
        model = _model_after(spec, hist)
        for op in spec.enabled(model):
            if spec.isolate:
                r = in_child(lambda: _one_transition(spec, hist, trace, op))
            else:
                r = _one_transition(spec, hist, trace, op)
            add("transitions", r["n_tr"])
            add("probes", r["probes"])
            if r["viol"]:
                add("violating_cases")
                if len(res["viol"]) < 6:
                    res["viol"].append({"kind": "life:" + op[0], "history": [list(h) for h in hist] + [list(op)], "why": r["viol"],
                                        "isolated": spec.isolate})  # fmt: skip
                continue
            got = r["got"]
            res["outcomes"].append(f"{op[0]}:{got[0]}:{got[1] if len(got) > 1 else ''}"[:60])
            if not r["key"][2]:
                add("global_state_changed")
            res["next"].append((r["key"], hist + [op], r["outs"]))
    return res


def _bfs(res, spec):
    init_key = ((None,) * spec.slots, (None,) * spec.slots, True)
    seen = {init_key}
    frontier = [([], [])]
    depth = 0
    while frontier and depth < spec.depth:
        nxt = []
        for w in pmap(_expand, frontier, chunk=max(1, min(8, len(frontier) // 32 or 1)), inline_ok=False):
            new = w.pop("next")
            res.merge_worker(w)
            for key, hist, trace in new:
                if spec.isolate:
                    key = key[:2] + (True,)  # each replay started from a pristine process image
                if key not in seen:
                    seen.add(key)
                    nxt.append((hist, trace))
                    if len(res.samples) < 6 and len(hist) >= 3:
                        res.sample({"history": [list(h) for h in hist], "outcomes": [list(t) for t in trace]})
        depth += 1
        res.set(f"states_at_depth_{depth}", len(nxt))
        frontier = nxt
    return len(seen), depth, len(frontier)


def explore(res, spec, tag="xlife"):
    """level-synchronous BFS; returns number of states.  If the library turns out to keep state at
    module level (fingerprint change, or replays that are not reproducible inside one process) the
    whole search is redone with every replay in a forked child of a pristine process image."""
    global _SPEC
    _SPEC = spec
    saved = (dict(res.cov), list(res.violations), set(res.outcomes), list(res.samples))
    try:
        spec.prepare()
        n, depth, left = _bfs(res, spec)
        hidden = bool(res.cov.get("global_state_changed"))
        why = "module-level state of pyab_experiment changed during a replay"
    except HarnessFault as e:
        hidden, why = True, f"in-process replays are not reproducible ({short(str(e), 200)})"
    for v in getattr(spec, "prep_violations", []):
        res.violation(v)
    if hidden:
        res.cov, res.violations, res.outcomes, res.samples = dict(saved[0]), list(saved[1]), set(saved[2]), list(saved[3])
        spec.isolate = True
        spec.fresh, spec.table, spec.gfp0 = {}, {}, None
        spec.prepare()
        for v in spec.prep_violations:
            res.violation(v)
        n, depth, left = _bfs(res, spec)
        res.set("isolated_mode", why)
    res.set("states", n)
    res.set("depth_completed", depth)
    res.set("frontier_left", left)
    return n
