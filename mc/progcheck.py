"""Run one reference program on the implementation over a list of inputs and compare."""
from __future__ import annotations

from . import impl, oracle
from .common import enc, dec, short
from .ref import parse as rp


class Acc:
    """per-worker accumulator returned to the parent (see Result.merge_worker)"""

    def __init__(self, viol_cap=8):
        self.cov = {}
        self.viol = []
        self.outcomes = set()
        self.samples = []
        self.known = {}
        self.cap = viol_cap

    def add(self, k, n=1):
        self.cov[k] = self.cov.get(k, 0) + n

    def violation(self, v):
        self.add("violating_cases")
        self.add("viol_by_kind/" + "/".join(str(v.get("kind", "?")).split(":")[:2]) + "/" + str(v.get("sub", "")))
        if len(self.viol) < self.cap:
            self.viol.append(v)

    def out(self):
        return {"cov": self.cov, "viol": self.viol, "outcomes": list(self.outcomes)[:64],
                "samples": self.samples[:2], "known": self.known}  # fmt: skip


def check_prog(acc: Acc, ast, envs, kind, text=None, want_sample=False):
    """Compile `ast` (rendered unless text is given) and evaluate on every env.

    Counts: programs, evaluations; outcome classes go to acc.outcomes.  Returns the evaluator
    (or None when construction failed - reported as a violation: the reference accepts it)."""
    text = rp.render(ast) if text is None else text
    acc.add("programs")
    b = impl.build(text)
    if b[0] != "ok" and oracle._FAIL_CLOSED_OK:
        acc.add("failed_closed")  # (host where MD5 is refused: the constructor may fail, see common.HOSTILE_FIPS)
        return None
    if b[0] != "ok":
        acc.outcomes.add("build:" + b[1])
        acc.violation({"kind": kind, "sub": "build", "text": text, "observed": list(b),
                       "expected": "reference grammar accepts this text: a callable evaluator"})  # fmt: skip
        return None
    ev = b[1]
    first = True
    for env in envs:
        acc.add("evaluations")
        out = impl.call(ev, env)
        exp = oracle.expected(ast, env)
        why = oracle.agree(out, exp)
        acc.outcomes.add(out[0] + ":" + (exp[0] if exp[0] == "unroutable" else str(exp[1][1][0][0])[:12]))
        if why:
            acc.violation({"kind": kind, "sub": "eval", "text": text, "env": enc(env),
                           "observed": short(repr(out)), "why": why})  # fmt: skip
        elif want_sample and first:
            acc.samples.append({"text": short(text, 200), "env": enc(env), "outcome": short(repr(out), 80)})
            first = False
    return ev


def replay_eval(data):
    """Plain re-execution of a recorded counterexample (no explorer).  -> (reproduced, msg)"""
    text = data["text"]
    cl = rp.classify(text)
    if cl[0] != "accept":
        return False, f"reference does not accept the text any more: {cl}"
    b = impl.build(text)
    if data.get("sub") == "build" or "env" not in data:
        if b[0] != "ok":
            return True, f"construction fails: {b[1:]}"
        return False, "construction succeeds"
    if b[0] != "ok":
        return True, f"construction fails: {b[1:]}"
    env = dec(data["env"])
    out = impl.call(b[1], env)
    why = oracle.agree(out, oracle.expected(cl[1], env))
    return (True, why) if why else (False, f"agrees: {out!r}")
