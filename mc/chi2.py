"""chi-square survival function (regularised upper incomplete gamma), no third-party code."""
from __future__ import annotations

import math


def gammq(a: float, x: float) -> float:
    """Q(a, x) = Gamma(a, x) / Gamma(a)"""
    if x <= 0:
        return 1.0
    if x < a + 1:
        # series for P
        ap, s, d = a, 1.0 / a, 1.0 / a
        for _ in range(10000):
            ap += 1
            d *= x / ap
            s += d
            if abs(d) < abs(s) * 1e-16:
                break
        return max(0.0, 1.0 - s * math.exp(-x + a * math.log(x) - math.lgamma(a)))
    # continued fraction (modified Lentz)
    tiny = 1e-300
    b = x + 1 - a
    c = 1 / tiny
    d = 1 / b
    h = d
    for i in range(1, 10000):
        an = -i * (i - a)
        b += 2
        d = an * d + b
        d = tiny if abs(d) < tiny else d
        c = b + an / c
        c = tiny if abs(c) < tiny else c
        d = 1 / d
        de = d * c
        h *= de
        if abs(de - 1) < 1e-16:
            break
    return math.exp(-x + a * math.log(x) - math.lgamma(a)) * h


def sf(x: float, k: int) -> float:
    return gammq(k / 2.0, x / 2.0)


KNOWN = [(3.841458820694124, 1, 0.04999999999999989), (10, 2, 0.006737946999085468), (50, 4, 3.610865404890647e-10),
         (100, 9, 1.5735176303753876e-17), (200, 81, 4.732682589050208e-12), (30, 81, 0.9999999608888577),
         (60.0, 1, 9.485737571073857e-15), (0.001, 2, 0.9995001249791693), (45.0, 2, 1.69189792261513e-10),
         (150.0, 9, 8.819629954805395e-28)]  # scipy.stats.chi2.sf  # fmt: skip


def selfcheck():
    for x, k, want in KNOWN:
        got = sf(x, k)
        assert abs(got - want) <= 1e-9 * want + 1e-300 or abs(got - want) / want < 1e-7, (x, k, got, want)
