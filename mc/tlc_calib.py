"""TLC calibration of X-sched (thorough tier of C17).

The hand-written explorer could silently miss schedules.  For harnesses whose per-thread number of
scheduling points does not depend on the schedule (H2, H1x), the per-thread segment counts are
measured on the implementation, emitted as a TLA+ model of the scheduler's choice structure
(running thread continues for free, a switch away from a runnable thread costs one preemption, a
switch at thread exit is free, bound B), and TLC (explicit-state) enumerates its state graph
(-dump dot).  Then
  (1) the number of maximal paths of that graph must equal the number of schedules X-sched ran,
  (2) the set of owner sequences must be identical,
  (3) every TLC path is replayed as a schedule on the real implementation and checked.
"""
from __future__ import annotations

import os
import re
import shutil
import subprocess
import tempfile

from . import xsched
from .common import HarnessFault

SPEC = r"""---- MODULE sched ----
EXTENDS Naturals, FiniteSets
CONSTANTS NT, B
VARIABLES pc, cur, pre
Threads == 0 .. (NT - 1)
SEG == [t \in Threads |-> CASE %s]
Unfinished(p) == {t \in Threads : p[t] < SEG[t]}
Init == pc = [t \in Threads |-> 0] /\ cur = NT /\ pre = 0
Run(u) ==
  /\ u \in Unfinished(pc)
  /\ \/ cur = NT                                  \* initial choice: free
     \/ cur = u                                   \* the running thread continues: free
     \/ (cur # NT /\ cur # u /\ pc[cur] >= SEG[cur])  \* switch at thread exit: free
     \/ (cur # NT /\ cur # u /\ pc[cur] < SEG[cur] /\ pre < B)  \* preemption
  /\ pre' = IF cur # NT /\ cur # u /\ pc[cur] < SEG[cur] THEN pre + 1 ELSE pre
  /\ pc' = [pc EXCEPT ![u] = @ + 1]
  /\ cur' = u
Next == \E u \in Threads : Run(u)
Spec == Init /\ [][Next]_<<pc, cur, pre>>
====
"""


def tlc_paths(segs, bound, keep=None):
    """-> list of owner sequences (one per maximal path of the model's state graph)"""
    if shutil.which("tlc") is None:
        raise HarnessFault("tlc not on PATH")
    d = tempfile.mkdtemp(prefix="pyab_tlc_")
    try:
        cases = " [] ".join(f"t = {i} -> {n}" for i, n in enumerate(segs))
        open(os.path.join(d, "sched.tla"), "w").write(SPEC % cases)
        open(os.path.join(d, "sched.cfg"), "w").write(f"SPECIFICATION Spec\nCONSTANTS\n NT = {len(segs)}\n B = {bound}\n")
        cmd = ["tlc", "-workers", "1", "-noGenerateSpecTE", "-deadlock", "-metadir", os.path.join(d, "meta"), "-dump", "dot,actionlabels", os.path.join(d, "g"), "sched.tla"]
        # (TLC's own scratch directories go into d as well, which is removed below)
        env = dict(os.environ, JAVA_TOOL_OPTIONS=(os.environ.get("JAVA_TOOL_OPTIONS", "") + f" -Djava.io.tmpdir={d}").strip())
        p = subprocess.run(cmd, cwd=d, capture_output=True, text=True, timeout=900, env=env)
        if "Model checking completed. No error has been found" not in p.stdout:
            raise HarnessFault("TLC failed:\n" + p.stdout[-1500:] + p.stderr[-500:])
        m = re.search(r"(\d+) distinct states found", p.stdout)
        nstates = int(m.group(1)) if m else -1
        dot = open(os.path.join(d, "g.dot")).read()
        if keep:
            shutil.copy(os.path.join(d, "sched.tla"), keep)
    finally:
        shutil.rmtree(d, ignore_errors=True)
    # nodes: id [label="/\\ pc = ... /\\ cur = 1 /\\ pre = 0"]; edges: a -> b [label="Run"...]
    cur_of, init = {}, []
    for m in re.finditer(r'^(-?\d+) \[label="(.*?)"(.*?)\]', dot, re.M):
        nid, lab, rest = m.group(1), m.group(2), m.group(3)
        c = re.search(r"cur = (\d+)", lab)
        cur_of[nid] = int(c.group(1))
        if "style = filled" in rest or "style=filled" in rest:
            init.append(nid)
    succ = {}
    for m in re.finditer(r"^(-?\d+) -> (-?\d+)", dot, re.M):
        if m.group(1) != m.group(2):
            succ.setdefault(m.group(1), []).append(m.group(2))
    for k in succ:
        succ[k] = sorted(set(succ[k]), key=lambda n: cur_of[n])
    if len(init) != 1:
        raise HarnessFault(f"expected one initial state in the TLC dump, got {len(init)}")
    paths = []
    stack = [(init[0], [])]
    while stack:
        n, owners = stack.pop()
        nx = succ.get(n, [])
        if not nx:
            paths.append(owners)
            continue
        for v in nx:
            stack.append((v, owners + [cur_of[v]]))
    return paths, nstates


def normalise(owners, segs):
    """X-sched records a choice only while more than one thread is unfinished (plus the forced
    hand-over at the exit of the last-but-one thread): cut the model's path the same way."""
    done = [0] * len(segs)
    out = []
    for o in owners:
        out.append(o)
        done[o] += 1
        if sum(1 for t, n in enumerate(segs) if done[t] < n) <= 1:
            rem = [t for t, n in enumerate(segs) if done[t] < n]
            if rem and o not in rem:
                out.append(rem[0])  # forced hand-over recorded at the exit
            break
    return tuple(out)


def to_choices(owners, nthreads, segs):
    """owner sequence -> X-sched choice list (index into [running] + others ascending / all ascending at start and exits)"""
    done = [0] * nthreads
    choices = []
    cur = None
    for o in owners:
        alive = [t for t in range(nthreads) if done[t] < segs[t]]
        if cur is None or cur not in alive:
            order = alive
        else:
            order = [cur] + [t for t in alive if t != cur]
        choices.append(order.index(o))
        done[o] += 1
        cur = o
    return choices


def calibrate(make_bodies, check, instrument_args, bound, explored_owner_seqs):
    """returns dict of measured facts; raises HarnessFault on any disagreement"""
    with xsched.Instrument(*instrument_args):
        ex, _ = xsched.run_schedule(make_bodies, [])
    n = ex.n
    segs = [1] * n
    for (tid, _loc, _n, _c, is_exit, _g) in ex.points:
        if tid >= 0 and not is_exit:
            segs[tid] += 1
    # the default schedule runs thread 0 to completion first; points of the last running thread are not
    # recorded once it is alone, so measure every thread's segment count while another is still alive:
    for t in range(n):
        # let thread t start (initial choice t) and run to completion while the others are alive
        with xsched.Instrument(*instrument_args):
            ex2, _ = xsched.run_schedule(make_bodies, [t])
        segs[t] = 1 + sum(1 for (tid, _l, _n, _c, is_exit, _g) in ex2.points if tid == t and not is_exit)
    paths, nstates = tlc_paths(segs, bound)
    model = {normalise(p, segs) for p in paths}
    mine = set(explored_owner_seqs)
    facts = {"segments_per_thread": segs, "tlc_states": nstates, "tlc_paths": len(paths), "tlc_distinct_schedules": len(model), "xsched_schedules": len(mine)}
    if model != mine:
        only_m = sorted(model - mine)[:3]
        only_x = sorted(mine - model)[:3]
        raise HarnessFault(f"X-sched and TLC disagree on the schedule set: {facts}; only in TLC: {only_m}; only in X-sched: {only_x}")
    # replay every TLC path on the implementation
    replayed = 0
    with xsched.Instrument(*instrument_args):
        for owners in sorted(model):
            ch = to_choices(list(owners), n, segs)
            exr, ctx = xsched.run_schedule(make_bodies, ch)
            if exr.fault:
                raise HarnessFault(f"TLC path {owners} does not replay: {exr.fault}")
            got = tuple(p[5] for p in exr.points)
            if got != owners:
                raise HarnessFault(f"TLC path {owners} replayed as {got}")
            v = check(exr, ctx)
            if v is not None:
                return facts, dict(v, schedule=ch)
            replayed += 1
    facts["tlc_paths_replayed_on_impl"] = replayed
    return facts, None
