"""R-lex: reference tokenizer of the documented token set (language/README.rst).

Shares no code with /repo.  Two readings of the keyword regexes:
  W  keywords are matched by their documented regex AND must end at a word boundary
     (order_id, index, not_active, android are identifiers - the reading C07 states);
  D  documented regexes, first match in documented order, no boundary.
A text is *ambiguous* (never alarmed on) when it contains: an unterminated block comment, a
block comment whose body contains '/*' (documentation claims nesting, the lexer has none),
or a non-ASCII character outside strings and comments (Python's \\d, \\s are Unicode-aware and the
documentation does not say whether that is intended).
"""
from __future__ import annotations

import re


class RefLexError(Exception):
    pass


class RefAmbiguous(Exception):
    pass


WS = " \t\n\r\f\v"
KEYWORDS = [  # documented order
    ("IN", r"in"),
    ("NOT_IN", r"not\s+in"),
    ("NOT", r"not"),
    ("DEF", r"def"),
    ("SALT", r"salt"),
    ("SPLITTERS", r"splitters"),
    ("IF", r"if"),
    ("ELIF", r"else\s*if"),
    ("ELSE", r"else"),
    ("WEIGHTED", r"weighted"),
    ("RETURN", r"return"),
    ("AND", r"and"),
    ("OR", r"or"),
]
_KW_D = [(n, re.compile(p)) for n, p in KEYWORDS]
_KW_W = [(n, re.compile(p + r"(?![A-Za-z0-9_])")) for n, p in KEYWORDS]
_SYMS = [  # maximal munch: two-character operators first
    ("EQ", "=="),
    ("GE", ">="),
    ("LE", "<="),
    ("NE", "!="),
    ("GT", ">"),
    ("LT", "<"),
    ("LPAREN", "("),
    ("RPAREN", ")"),
    ("MINUS", "-"),
    ("COMMA", ","),
    ("COLON", ":"),
    ("LBRACE", "{"),
    ("RBRACE", "}"),
]
_ID = re.compile(r"[A-Za-z_][A-Za-z0-9_]*")
_FLOAT = re.compile(r"[0-9]+\.[0-9]+")
_INT = re.compile(r"[0-9]+")


def tokenize(text: str, reading: str = "W"):
    """-> list of (type, value).  Raises RefLexError / RefAmbiguous."""
    return [(t, v) for t, v, _s, _e in tokenize_spans(text, reading)]


def tokenize_spans(text: str, reading: str = "W"):
    """-> list of (type, value, start, end)"""
    kws = _KW_W if reading == "W" else _KW_D
    out = []
    i, n = 0, len(text)
    while i < n:
        c = text[i]
        if c in WS:
            i += 1
            continue
        if text.startswith("//", i):
            j = text.find("\n", i)
            i = n if j < 0 else j
            continue
        if text.startswith("/*", i):
            j = text.find("*/", i + 2)
            if j < 0:
                raise RefAmbiguous("unterminated block comment")
            if "/*" in text[i + 2 : j]:
                raise RefAmbiguous("'/*' inside a block comment (nesting is documented but absent)")
            i = j + 2
            continue
        if c in "\"'":
            j = i + 1
            while j < n and text[j] != c and text[j] != "\n":
                j += 1
            if j >= n or text[j] != c:
                raise RefLexError(f"unterminated string at {i}")
            out.append(("STR", text[i + 1 : j], i, j + 1))
            i = j + 1
            continue
        if c in "\x1c\x1d\x1e\x1f" or (ord(c) > 127 and (c.isspace() or c.isdigit() or c.isdecimal() or c.isnumeric())):
            # Python's \\s and \\d are Unicode-aware; the documentation does not say whether that is meant
            raise RefAmbiguous(f"Unicode whitespace / digit / separator control {c!r} outside string/comment")
        if ord(c) > 127:
            raise RefLexError(f"illegal character {c!r} at {i} (no documented token contains it)")
        for name, sym in _SYMS:
            if text.startswith(sym, i):
                out.append((name, sym, i, i + len(sym)))
                i += len(sym)
                break
        else:
            for name, rx in kws:
                m = rx.match(text, i)
                if m:
                    if ord(max(m.group())) > 127:
                        raise RefAmbiguous("non-ASCII whitespace inside keyword")
                    out.append((name, m.group(), i, m.end()))
                    i = m.end()
                    break
            else:
                m = _ID.match(text, i)
                if m:
                    out.append(("ID", m.group(), i, m.end()))
                    i = m.end()
                    continue
                m = _FLOAT.match(text, i)
                if m:
                    out.append(("FLOAT", m.group(), i, m.end()))
                    i = m.end()
                    continue
                m = _INT.match(text, i)
                if m:
                    out.append(("INT", m.group(), i, m.end()))
                    i = m.end()
                    continue
                raise RefLexError(f"illegal character {c!r} at {i}")
    return out


# mapping to the implementation's token type names (used only to compare token streams)
IMPL_TYPE = {
    "ID": "ID", "INT": "NON_NEG_INTEGER", "FLOAT": "NON_NEG_FLOAT", "STR": "STRING_LITERAL",
    "LPAREN": "LPAREN", "RPAREN": "RPAREN", "MINUS": "MINUS", "COMMA": "COMMA", "COLON": "COLON",
    "LBRACE": "LBRACE", "RBRACE": "RBRACE", "EQ": "KW_EQ", "GT": "KW_GT", "LT": "KW_LT",
    "GE": "KW_GE", "LE": "KW_LE", "NE": "KW_NE", "IN": "KW_IN", "NOT_IN": "KW_NOT_IN",
    "NOT": "KW_NOT", "DEF": "KW_DEF", "SALT": "KW_SALT", "SPLITTERS": "KW_SPLITTERS", "IF": "KW_IF",
    "ELIF": "KW_ELIF", "ELSE": "KW_ELSE", "WEIGHTED": "KW_WEIGHTED", "RETURN": "KW_RETURN",
    "AND": "KW_AND", "OR": "KW_OR",
}  # fmt: skip


def canon(tokens):
    """Canonical comparable form: keyword tokens carry no value (whitespace inside
    'else  if' / 'not   in' is not meaning)."""
    out = []
    for t, v in tokens:
        if t in ("ID", "STR"):
            out.append((t, v))
        elif t == "INT":
            out.append((t, int(v)))
        elif t == "FLOAT":
            out.append((t, float(v)))
        else:
            out.append((t, None))
    return out
