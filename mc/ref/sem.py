"""R-eval, R-hash, R-part: reference semantics written from the property texts alone."""
from __future__ import annotations

import hashlib
import operator
from fractions import Fraction

UNROUTABLE = "UNROUTABLE"

_OPS = {
    "==": operator.eq, "!=": operator.ne, ">": operator.gt, "<": operator.lt,
    ">=": operator.ge, "<=": operator.le,
    "in": lambda a, b: operator.contains(b, a),
    "not in": lambda a, b: not operator.contains(b, a),
}  # fmt: skip


def term_value(t, env):
    k = t[0]
    if k == "lit":
        return t[1]
    if k == "id":
        return env[t[1]]
    return tuple(term_value(i, env) for i in t[1])


def eval_pred(p, env) -> bool:
    k = p[0]
    if k == "cmp":
        return bool(_OPS[p[2]](term_value(p[1], env), term_value(p[3], env)))
    if k == "not":
        return not eval_pred(p[1], env)
    if k == "and":
        return eval_pred(p[1], env) and eval_pred(p[2], env)
    return eval_pred(p[1], env) or eval_pred(p[2], env)


def route(c, env):
    """-> the selected ('ret', ...) node, or UNROUTABLE.  Nested if / else if / else: once a
    branch body is entered its result (even 'nothing selected') is final."""
    while True:
        if c is None:
            return UNROUTABLE
        k = c[0]
        if k == "ret":
            return c
        if k == "else":
            return route(c[1], env)
        # 'if' / 'elif'
        if eval_pred(c[1], env):
            return route(c[2], env)
        c = c[3]


def hash_key(salt, splitters, env) -> str:
    """salt followed by str() of the splitter values in alphabetical order of field name."""
    return (salt or "") + "".join(_str(env[n]) for n in sorted(set(splitters)))


def _str(v) -> str:
    """str(v) as the language of the property means it: for an int its decimal digits, whatever interpreter-wide digit limit
    is in force (CPython's default refuses > 4300 digits: such ints are outside the property and are never enumerated)"""
    if isinstance(v, int) and not isinstance(v, bool):
        from ..common import int_str

        return int_str(v)
    return str(v)


def hash_k(key: str) -> int:
    """first 32 bits of MD5 of the UTF-8 encoding -> integer grid index k (u = k / 2**32)."""
    return int.from_bytes(hashlib.md5(key.encode("utf-8"), usedforsecurity=False).digest()[:4], "big")


def part_exact(weights, k: int) -> int:
    """Exact partition: index i with c_{i-1} <= k*T/2^32 < c_i  (Fractions)."""
    T = sum(weights)
    x = Fraction(k) * T / (1 << 32)
    c = Fraction(0)
    for i, w in enumerate(weights):
        c += w
        if x < c:
            return i
    raise AssertionError("k out of range")


def groups_meeting(weights, lo, hi):
    """positive-weight groups whose exact interval [c_{i-1}, c_i) meets the open interval (lo, hi)
    of the scaled axis x = u*T"""
    out, c = set(), Fraction(0)
    for i, w in enumerate(weights):
        if w > 0 and c < hi and c + w > lo:
            out.add(i)
        c += w
    return out


def part_allowed(weights, k: int):
    """Groups acceptable at grid point k with the one-grid-point-per-boundary tolerance: every
    positive-weight group whose exact interval meets ((k-1)T/2^32, (k+1)T/2^32) - this contains the
    exact groups of k-1, k, k+1 and sub-grid-point groups lying between them; never a zero weight."""
    T = sum(weights)
    return groups_meeting(weights, Fraction(k - 1) * T / (1 << 32), Fraction(k + 1) * T / (1 << 32))


def float_exact(weights, k: int) -> bool:
    """True when the straightforward binary64 computation is exact at this point, so that no tolerance
    is owed: the running sums accumulated in floats equal the exact rational sums, and (k / 2^32) * total
    computed in floats equals the exact product."""
    acc, c = 0.0, Fraction(0)
    for w in weights:
        try:
            acc += float(w)
        except OverflowError:
            return False
        c += w
        if Fraction(acc) != c:
            return False
    return Fraction((k / 4294967296) * acc) == Fraction(k, 1 << 32) * c


def expected_group(ast, env):
    """Reference outcome of a compiled experiment with splitters: (ret node, exact index)."""
    _, _name, salt, split, c = ast
    r = route(c, env)
    if r == UNROUTABLE:
        return UNROUTABLE, None
    ws = [Fraction(str(w)) for _, w in r[1]]
    k = hash_k(hash_key(salt, split, env))
    return r, part_exact(ws, k)
