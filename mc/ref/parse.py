"""R-parse: recursive-descent recogniser + reference AST + pretty printer.

Grammar (language/README.rst, completed with the term / tuple / return / literal productions):

  program  := DEF ID '{' [SALT ':' STR] [SPLITTERS ':' ID (',' ID)*] cond '}' EOF
  cond     := RETURN group (',' group)*  |  IF pred '{' cond '}' sub
  sub      := e | ELSE '{' cond '}' | ELIF pred '{' cond '}' sub
  group    := literal WEIGHTED (INT | FLOAT)
  literal  := ['-'] INT | ['-'] FLOAT | STR
  pred     := or ;  or := and (OR and)* ; and := not (AND not)* ; not := NOT not | prim
  prim     := term op term | '(' pred ')'
  term     := literal | ID | '(' term (',' term)* ')'
  op       := == != > < >= <= in 'not in'

AST nodes are plain tuples (hashable, comparable):
  ('prog', name, salt|None, splitters|None, cond)
  ('ret', ((value, weight_text), ...))          ('if', pred, cond, sub)
  sub: None | ('else', cond) | ('elif', pred, cond, sub)
  pred: ('cmp', term, op, term) | ('and', p, p) | ('or', p, p) | ('not', p)
  term: ('lit', value) | ('id', name) | ('tup', (term, ...))
"""
from __future__ import annotations

from fractions import Fraction

from . import lex as rlex

OPS = {"EQ": "==", "NE": "!=", "GT": ">", "LT": "<", "GE": ">=", "LE": "<=", "IN": "in", "NOT_IN": "not in"}


class RefParseError(Exception):
    pass


class _P:
    def __init__(self, toks):
        self.t = toks
        self.i = 0

    def peek(self, k=0):
        j = self.i + k
        return self.t[j][0] if j < len(self.t) else "EOF"

    def take(self, typ):
        if self.peek() != typ:
            raise RefParseError(f"expected {typ} at token {self.i}, got {self.peek()}")
        v = self.t[self.i][1]
        self.i += 1
        return v

    # ---- program
    def program(self):
        self.take("DEF")
        name = self.take("ID")
        self.take("LBRACE")
        salt = None
        if self.peek() == "SALT":
            self.take("SALT")
            self.take("COLON")
            salt = self.take("STR")
        split = None
        if self.peek() == "SPLITTERS":
            self.take("SPLITTERS")
            self.take("COLON")
            split = [self.take("ID")]
            while self.peek() == "COMMA":
                self.take("COMMA")
                split.append(self.take("ID"))
            split = tuple(split)
        c = self.cond()
        self.take("RBRACE")
        if self.peek() != "EOF":
            raise RefParseError(f"trailing tokens at {self.i}")
        return ("prog", name, salt, split, c)

    def cond(self):
        if self.peek() == "RETURN":
            self.take("RETURN")
            gs = [self.group()]
            while self.peek() == "COMMA":
                self.take("COMMA")
                gs.append(self.group())
            return ("ret", tuple(gs))
        self.take("IF")
        p = self.pred()
        self.take("LBRACE")
        c = self.cond()
        self.take("RBRACE")
        return ("if", p, c, self.sub())

    def sub(self):
        if self.peek() == "ELSE":
            self.take("ELSE")
            self.take("LBRACE")
            c = self.cond()
            self.take("RBRACE")
            return ("else", c)
        if self.peek() == "ELIF":
            self.take("ELIF")
            p = self.pred()
            self.take("LBRACE")
            c = self.cond()
            self.take("RBRACE")
            return ("elif", p, c, self.sub())
        return None

    def group(self):
        v = self.literal()
        self.take("WEIGHTED")
        if self.peek() in ("INT", "FLOAT"):
            w = self.take(self.peek())
        else:
            raise RefParseError(f"expected weight at {self.i}")
        return (v, w)

    def literal(self):
        neg = False
        if self.peek() == "MINUS":
            self.take("MINUS")
            neg = True
            if self.peek() not in ("INT", "FLOAT"):
                raise RefParseError("'-' must precede a number")
        k = self.peek()
        if k == "INT":
            v = int(self.take("INT"))
            return -v if neg else v
        if k == "FLOAT":
            v = float(self.take("FLOAT"))
            return -v if neg else v
        if k == "STR":
            return self.take("STR")
        raise RefParseError(f"expected literal at {self.i}, got {k}")

    # ---- predicates
    def pred(self):
        l = self.and_()
        while self.peek() == "OR":
            self.take("OR")
            l = ("or", l, self.and_())
        return l

    def and_(self):
        l = self.not_()
        while self.peek() == "AND":
            self.take("AND")
            l = ("and", l, self.not_())
        return l

    def not_(self):
        if self.peek() == "NOT":
            self.take("NOT")
            return ("not", self.not_())
        return self.prim()

    def prim(self):
        save = self.i
        try:
            l = self.term()
            k = self.peek()
            if k not in OPS:
                raise RefParseError(f"expected comparison operator at {self.i}, got {k}")
            self.take(k)
            r = self.term()
            return ("cmp", l, OPS[k], r)
        except RefParseError:
            self.i = save
            if self.peek() != "LPAREN":
                raise
        self.take("LPAREN")
        p = self.pred()
        self.take("RPAREN")
        return p

    def term(self):
        k = self.peek()
        if k == "ID":
            return ("id", self.take("ID"))
        if k == "LPAREN":
            self.take("LPAREN")
            items = [self.term()]
            while self.peek() == "COMMA":
                self.take("COMMA")
                items.append(self.term())
            self.take("RPAREN")
            return ("tup", tuple(items))
        return ("lit", self.literal())


def parse_tokens(toks):
    return _P(list(toks)).program()


def parse(text: str, reading: str = "W"):
    return parse_tokens(rlex.tokenize(text, reading))


def classify(text: str):
    """-> ('accept', astW) | ('reject', reason) | ('ambiguous', reason)

    accept: reading W accepts and reading D does not accept a *different* program.
    reject: BOTH readings reject.  Anything else is ambiguous and never alarmed on."""
    res = {}
    for rd in ("W", "D"):
        try:
            res[rd] = ("accept", parse(text, rd))
        except rlex.RefAmbiguous as e:
            return ("ambiguous", str(e))
        except (rlex.RefLexError, RefParseError) as e:
            res[rd] = ("reject", f"{type(e).__name__}: {e}")
    w, d = res["W"], res["D"]
    if w[0] == "accept":
        if d[0] == "accept" and d[1] != w[1]:
            return ("ambiguous", "readings W and D accept different programs")
        return w
    if d[0] == "reject":
        return ("reject", w[1])
    return ("ambiguous", "reading D accepts, reading W rejects")


# ------------------------------------------------------------------ pretty printer
def lit_src(v, quote='"'):
    if isinstance(v, str):
        q = quote
        if q in v:
            q = "'" if q == '"' else '"'
        if q in v or "\n" in v:
            raise ValueError(f"string {v!r} not expressible")
        return q + v + q
    if isinstance(v, bool):
        raise ValueError("no boolean literals")
    if isinstance(v, int):
        return ("- " if v < 0 else "") + str(abs(v))
    if isinstance(v, float):
        # shortest decimal text that round-trips
        r = repr(abs(v))
        if "e" in r or "E" in r or "inf" in r or "nan" in r:
            from decimal import Decimal

            r = format(Decimal(r), "f")
            if "." not in r:
                r += ".0"
        if float(r) != abs(v):
            raise ValueError(f"float {v!r} not expressible")
        return ("- " if (v < 0 or (v == 0 and str(v).startswith("-"))) else "") + r
    raise ValueError(f"not a literal: {v!r}")


def term_toks(t, quote='"'):
    k = t[0]
    if k == "id":
        return [t[1]]
    if k == "lit":
        return lit_src(t[1], quote).split(" ") if not isinstance(t[1], str) else [lit_src(t[1], quote)]
    out = ["("]
    for j, it in enumerate(t[1]):
        if j:
            out.append(",")
        out += term_toks(it, quote)
    return out + [")"]


_PREC = {"or": 1, "and": 2, "not": 3, "cmp": 4}


def pred_toks(p, mode="min", quote='"', top=True):
    """mode: min (only parentheses the precedence needs), full (every sub-predicate
    parenthesised), red (min + one redundant pair around every comparison and the whole)."""
    k = p[0]
    if k == "cmp":
        out = term_toks(p[1], quote) + [p[2]] + term_toks(p[3], quote)
        if mode in ("full", "red"):
            out = ["("] + out + [")"]
        return out
    if k == "not":
        inner = pred_toks(p[1], mode, quote, False)
        if mode in ("min", "red") and _PREC[p[1][0]] < 3:
            inner = ["("] + inner + [")"]
        elif mode == "full" and p[1][0] != "cmp":
            inner = ["("] + inner + [")"]
        out = ["not"] + inner
    else:
        l = pred_toks(p[1], mode, quote, False)
        r = pred_toks(p[2], mode, quote, False)
        if mode == "full":
            if p[1][0] != "cmp":
                l = ["("] + l + [")"]
            if p[2][0] != "cmp":
                r = ["("] + r + [")"]
        else:
            # left-assoc: left child needs parens if lower prec; right child if lower-or-equal
            if _PREC[p[1][0]] < _PREC[k]:
                l = ["("] + l + [")"]
            if _PREC[p[2][0]] <= _PREC[k]:
                r = ["("] + r + [")"]
        out = l + [k] + r
    if mode == "red" and top:
        out = ["("] + out + [")"]
    return out


def cond_toks(c, mode="min", quote='"'):
    if c[0] == "ret":
        out = ["return"]
        for j, (v, w) in enumerate(c[1]):
            if j:
                out.append(",")
            out += lit_src(v, quote).split(" ") if not isinstance(v, str) else [lit_src(v, quote)]
            out += ["weighted", str(w)]
        return out
    out = ["if"] + pred_toks(c[1], mode, quote) + ["{"] + cond_toks(c[2], mode, quote) + ["}"]
    s = c[3]
    while s is not None:
        if s[0] == "else":
            out += ["else", "{"] + cond_toks(s[1], mode, quote) + ["}"]
            s = None
        else:
            out += ["else if"] + pred_toks(s[1], mode, quote) + ["{"] + cond_toks(s[2], mode, quote) + ["}"]
            s = s[3]
    return out


def prog_toks(a, mode="min", quote='"'):
    _, name, salt, split, c = a
    out = ["def", name, "{"]
    if salt is not None:
        out += ["salt", ":", lit_src(salt, quote)]
    if split is not None:
        out += ["splitters", ":"]
        for j, s in enumerate(split):
            if j:
                out.append(",")
            out.append(s)
    return out + cond_toks(c, mode, quote) + ["}"]


def render(a, mode="min", quote='"', sep=" "):
    return sep.join(prog_toks(a, mode, quote))


# ------------------------------------------------------------------ helpers over ASTs
def returns(c):
    """All 'ret' nodes of a conditional in source order."""
    if c is None:
        return []
    if c[0] == "ret":
        return [c]
    if c[0] == "if" or c[0] == "elif":
        return returns(c[2]) + returns(c[3])
    if c[0] == "else":
        return returns(c[1])
    raise ValueError(c)


def pred_ids(p, acc=None):
    acc = [] if acc is None else acc
    if p[0] == "cmp":
        for t in (p[1], p[3]):
            term_ids(t, acc)
    elif p[0] == "not":
        pred_ids(p[1], acc)
    else:
        pred_ids(p[1], acc)
        pred_ids(p[2], acc)
    return acc


def term_ids(t, acc):
    if t[0] == "id":
        if t[1] not in acc:
            acc.append(t[1])
    elif t[0] == "tup":
        for it in t[1]:
            term_ids(it, acc)


def cond_ids(c, acc=None):
    acc = [] if acc is None else acc
    if c is None or c[0] == "ret":
        return acc
    if c[0] == "else":
        return cond_ids(c[1], acc)
    pred_ids(c[1], acc)
    cond_ids(c[2], acc)
    cond_ids(c[3], acc)
    return acc


def weight_fraction(w) -> Fraction:
    return Fraction(str(w))
