"""Environment-answer seams owned by the harness (no repo hook): the MD5 digest seen by the
binning module, and the random source used by the id-less branch."""
from __future__ import annotations

import hashlib as _real_hashlib
import random as _random

from . import impl


class _FakeDigest:
    __slots__ = ("k",)

    def __init__(self, k):
        self.k = k

    # the digest bits after the first 32 are all ONES: an implementation that (wrongly) lets more than the first
    # 32 bits decide the position lands almost one grid point later and is seen at the exact boundaries
    def hexdigest(self):
        return f"{self.k:08x}" + "f" * 24

    def digest(self):
        return self.k.to_bytes(4, "big") + b"\xff" * 12


class HashSeam:
    """While active, every md5 computed through the binning module's `hashlib` (or a directly
    imported `md5`) has its first 32 bits equal to self.k.  `calls` proves the seam is effective."""

    def __init__(self):
        self.k = 0
        self.calls = 0
        self.mod = impl.binning
        self._saved = {}

    def _md5(self, data=b"", **kw):
        self.calls += 1
        if not isinstance(data, (bytes, bytearray, memoryview)):
            raise TypeError("Strings must be encoded before hashing")
        return _FakeDigest(self.k)

    def __enter__(self):
        seam = self

        class _Shim:
            def __getattr__(self, name):
                if name == "md5":
                    return seam._md5
                return getattr(_real_hashlib, name)

        for name in ("hashlib", "md5"):
            if hasattr(self.mod, name):
                self._saved[name] = getattr(self.mod, name)
                setattr(self.mod, name, _Shim() if name == "hashlib" else self._md5)
        return self

    def __exit__(self, *a):
        for name, v in self._saved.items():
            setattr(self.mod, name, v)
        self._saved.clear()


class RandomSeam:
    """While active, random.random() (module function and the hidden instance used by
    random.choices) returns self.r."""

    def __init__(self):
        self.r = 0.0
        self.calls = 0

    def _rand(self):
        self.calls += 1
        return self.r

    def __enter__(self):
        self._saved_mod = _random.random
        _random._inst.random = self._rand
        _random.random = self._rand
        self._saved_b = {}
        if hasattr(impl.binning, "random") and not hasattr(impl.binning.random, "choices"):
            self._saved_b["random"] = impl.binning.random
            impl.binning.random = self._rand
        return self

    def __exit__(self, *a):
        try:
            del _random._inst.random
        except AttributeError:
            pass
        _random.random = self._saved_mod
        for k, v in self._saved_b.items():
            setattr(impl.binning, k, v)
