"""Runner:  python -m mc.run <ID> [--tier quick|thorough] [--replay file]

exit 0  property held on everything explored (known findings are printed, never hidden)
exit 1  + 'VIOLATION property=<id> replay=<path>' lines
exit 2  harness fault (never a VIOLATION)
"""
from __future__ import annotations

import argparse
import importlib
import json
import os
import sys
import traceback

from . import common
from .common import HarnessFault, Result


def main(argv=None) -> int:
    for stream in (sys.stdout, sys.stderr):  # counterexamples may hold lone surrogates: never die while printing one
        try:
            stream.reconfigure(errors="backslashreplace")
        except (AttributeError, ValueError):
            pass
    ap = argparse.ArgumentParser()
    ap.add_argument("pid")
    ap.add_argument("--tier", default=None)
    ap.add_argument("--replay", default=None)
    a = ap.parse_args(argv)
    if a.tier:
        os.environ["VERIF_TIER"] = a.tier
    pid = a.pid.upper()
    try:
        common.bind_repo()
        mod = importlib.import_module(f"mc.checks.{pid.lower()}")
        if a.replay:
            with open(a.replay) as f:
                data = json.load(f)
            with common.quiet():
                bad, msg = common.replay_timeout(data) if data.get("kind") == "harness:timeout" else mod.replay(data)
            print(f"replay {a.replay}: {'REPRODUCED' if bad else 'not reproduced'}: {msg}")
            if bad:
                print(f"VIOLATION property={pid} replay={a.replay}")
            return 1 if bad else 0
        res = Result(pid, mod.LEVEL)
        mod.run(res, common.tier())
        ev = common.write_evidence(res, mod.RULE, exhaustive=getattr(mod, "EXHAUSTIVE", True))
    except HarnessFault as e:
        print(f"HARNESS-FAULT property={pid}: {e}", file=sys.stderr)
        return 2
    except Exception:
        print(f"HARNESS-FAULT property={pid}:\n{traceback.format_exc()}", file=sys.stderr)
        return 2
    cov = res.cov
    print(
        f"{pid} tier={common.tier()} seed={common.seed()} repo={common.REPO} "
        f"states={cov.get('states', cov.get('programs', 0))} "
        f"transitions={cov.get('transitions', cov.get('evaluations', 0))} "
        f"distinct_outcomes={len(res.outcomes)} wall={res.cov.get('wall', 0) or round(__import__('time').time() - res.t0, 1)}s "
        f"evidence={ev}"
    )
    for k in sorted(cov):
        if k not in ("states", "transitions"):
            print(f"  {k}={cov[k]}")
    for c in res.caps:
        print(f"  CAP-HIT: {c}")
    for k, n in sorted(res.known.items()):
        print(f"KNOWN-FINDING: property={pid} {k} (cases={n})")
    if res.violations:
        seen, printed = {}, 0
        for v in res.violations:
            key = str(v.get("kind", "")).split(":")[0] + "|" + str(v.get("sub", ""))
            seen[key] = seen.get(key, 0) + 1
            if seen[key] > 4 or printed >= 25:
                continue
            printed += 1
            path = common.write_replay(pid, v)
            print(f"VIOLATION property={pid} replay={path}")
            print(f"  {common.short(json.dumps(v, ensure_ascii=True), 600)}")
        print(f"{pid}: {res.cov.get('violating_cases', len(res.violations))} violating case(s)")
        return 1
    return 0


if __name__ == "__main__":
    sys.exit(main())
