"""Shared plumbing for every check: repo binding, tiers, seeds, fork pool, evidence, replays.

Nothing here decides a property.  The deciding step of each check is an exhaustive enumeration
implemented in mc/checks/cXX.py; this module only makes sure (a) the code under test is the
working tree named by PYAB_REPO (default /repo), (b) results are reported in the agreed format.
"""
from __future__ import annotations

import contextlib
import hashlib
import io
import json
import multiprocessing as mp
import os
import random
import sys
import time
import traceback

VERIF = os.path.dirname(os.path.dirname(os.path.abspath(__file__)))
REPO = os.path.abspath(os.environ.get("PYAB_REPO", "/repo"))
# evidence of runs against a scratch copy (mutants, seeded changes) never overwrites the evidence of /repo itself
EVIDENCE_DIR = os.path.join(VERIF, "evidence") if REPO == "/repo" else os.path.join("/tmp", "pyab_scratch_evidence")
REPLAY_DIR = os.path.join(VERIF, "replays")
NCPU = int(os.environ.get("VERIF_JOBS", "0")) or min(16, os.cpu_count() or 1)


class HarnessFault(Exception):
    """The harness itself is broken (never reported as a VIOLATION; exit code 2)."""


def bind_repo() -> None:
    """Put the working tree first on sys.path and prove that is what gets imported."""
    src = os.path.join(REPO, "src")
    if not os.path.isdir(os.path.join(src, "pyab_experiment")):
        raise HarnessFault(f"no pyab_experiment package under {src}")
    if sys.path[0] != src:
        sys.path.insert(0, src)
    for name in list(sys.modules):
        if name == "pyab_experiment" or name.startswith("pyab_experiment."):
            f = getattr(sys.modules[name], "__file__", "") or ""
            if not os.path.abspath(f).startswith(src + os.sep):
                del sys.modules[name]
    import pyab_experiment  # noqa

    f = os.path.abspath(pyab_experiment.__file__)
    if not f.startswith(src + os.sep):
        raise HarnessFault(f"pyab_experiment imported from {f}, expected under {src}")


def tier() -> str:
    t = os.environ.get("VERIF_TIER", "quick")
    return t if t in ("quick", "thorough") else "quick"


def seed() -> int:
    try:
        return int(os.environ.get("VERIF_SEED", "0"))
    except ValueError:
        return 0


def rng(tag: str = "") -> random.Random:
    """Deterministic RNG used ONLY to permute enumeration order / pick evidence samples."""
    return random.Random(f"{seed()}:{tag}")


def permuted(items, tag=""):
    items = list(items)
    if seed():
        rng(tag).shuffle(items)
    return items


# ---------------------------------------------------------------- quiet library output
_DEVNULL = None


@contextlib.contextmanager
def quiet():
    """The library prints 'Illegal character' / 'sly: Syntax error' lines; sink them."""
    global _DEVNULL
    if _DEVNULL is None:
        _DEVNULL = open(os.devnull, "w", encoding=getattr(sys.__stdout__, "encoding", None), errors=getattr(sys.__stdout__, "errors", None))
    o, e = sys.stdout, sys.stderr
    sys.stdout = sys.stderr = _DEVNULL
    try:
        yield
    finally:
        sys.stdout, sys.stderr = o, e


def silence_worker():
    global _DEVNULL
    _DEVNULL = open(os.devnull, "w")
    sys.stdout = sys.stderr = _DEVNULL


# ---------------------------------------------------------------- fork pool
def _chunks(seq, n):
    buf = []
    for x in seq:
        buf.append(x)
        if len(buf) >= n:
            yield buf
            buf = []
    if buf:
        yield buf


_WORK = None


class UnitTimeout(BaseException):
    pass


def _unit_timeout():
    """seconds one chunk of work may take before it is reported as non-terminating: generous in the quick tier (chunks take
    seconds), and long enough in the thorough tier for the largest single exploration unit even on a loaded machine"""
    if os.environ.get("VERIF_UNIT_TIMEOUT"):
        return float(os.environ["VERIF_UNIT_TIMEOUT"])
    return 900.0 if os.environ.get("VERIF_TIER", "quick") == "quick" else 4 * 3600.0


UNIT_TIMEOUT = 900.0


def _alarm(_sig, _frm):
    raise UnitTimeout()


def _run_chunk(chunk):
    """one chunk of work under a watchdog: library code that never returns (a scanner that stops advancing, a wait on
    a lock nobody releases) is reported as a violation of termination instead of hanging the check"""
    import signal

    old = None
    try:
        old = signal.signal(signal.SIGALRM, _alarm)
        limit = _unit_timeout()
        signal.setitimer(signal.ITIMER_REAL, limit)
    except (ValueError, OSError):  # not the main thread
        old = None
    try:
        return ("ok", _WORK(chunk))
    except UnitTimeout:
        import base64
        import pickle

        try:
            blob = base64.b64encode(pickle.dumps(chunk)).decode()
        except Exception:  # noqa
            blob = ""
        return ("ok", {"cov": {"violating_cases": 1}, "outcomes": [], "samples": [], "known": {}, "viol": [{
            "kind": "harness:timeout", "work": f"{_WORK.__module__}:{_WORK.__name__}", "units": short(repr(chunk), 400), "units_pickle_b64": blob, "limit_s": limit,
            "why": f"the implementation did not return within {limit:.0f} s on these cases (each takes well under a second on the pinned tree): it does not terminate"}]})  # fmt: skip
    except BaseException:  # noqa
        return ("err", traceback.format_exc())
    finally:
        if old is not None:
            signal.setitimer(signal.ITIMER_REAL, 0)
            signal.signal(signal.SIGALRM, old)


def replay_timeout(data):
    """re-run the recorded chunk under the same watchdog in a forked child -> (reproduced, message)"""
    import base64
    import importlib
    import pickle

    mod, fn = data["work"].split(":")
    work = getattr(importlib.import_module(mod), fn)
    chunk = pickle.loads(base64.b64decode(data["units_pickle_b64"]))
    global _WORK
    _WORK = work
    from .xlife import in_child

    r = in_child(lambda: _run_chunk(chunk))
    timed_out = r[0] == "ok" and any(v.get("kind") == "harness:timeout" for v in r[1].get("viol", []))
    return timed_out, ("still does not return within the limit" if timed_out else "returns now")


def pmap(work, units, chunk=64, jobs=None, inline_ok=True):
    """Run work(list_of_units) -> result over all units on a fork pool; yields results.

    `work` must be a module-level or closure function (fork start method: no pickling of it).
    Exceptions inside a worker are harness faults, not violations."""
    global _WORK
    jobs = jobs or NCPU
    _WORK = work
    units = list(units) if not isinstance(units, list) else units
    if inline_ok and (jobs <= 1 or len(units) <= chunk):
        for c in _chunks(units, chunk):
            with quiet():
                r = _run_chunk(c)
            if r[0] == "err":
                raise HarnessFault("worker failed:\n" + r[1])
            yield r[1]
        return
    ctx = mp.get_context("fork")
    with ctx.Pool(jobs, initializer=silence_worker) as pool:
        for r in pool.imap_unordered(_run_chunk, _chunks(units, chunk)):
            if r[0] == "err":
                pool.terminate()
                raise HarnessFault("worker failed:\n" + r[1])
            yield r[1]


# ---------------------------------------------------------------- results
def jsonable(x):
    if isinstance(x, int) and not isinstance(x, bool) and abs(x) >= 2**63:
        return int_str(x)[:60] + "...(int)" if abs(x) >= 10**60 else x
    if isinstance(x, (str, int, bool)) or x is None:
        return x
    if isinstance(x, float):
        return x if x == x and abs(x) != float("inf") else repr(x)
    if isinstance(x, (list, tuple)):
        return [jsonable(i) for i in x]
    if isinstance(x, dict):
        return {str(k): jsonable(v) for k, v in x.items()}
    if isinstance(x, (set, frozenset)):
        return sorted((jsonable(i) for i in x), key=repr)
    return repr(x)


class Result:
    """Accumulates coverage counters, violations and known-finding hits of one check run."""

    def __init__(self, pid: str, level: str):
        self.pid = pid
        self.level = level
        self.cov: dict = {}
        self.violations: list[dict] = []
        self.known: dict[str, int] = {}
        self.samples: list = []
        self.outcomes: set = set()
        self.assumptions: list[str] = []
        self.caps: list[str] = []
        self.t0 = time.time()

    def add(self, key, n=1):
        self.cov[key] = self.cov.get(key, 0) + n

    def set(self, key, v):
        self.cov[key] = v

    def sample(self, s, cap=12):
        if len(self.samples) < cap:
            self.samples.append(jsonable(s))

    def violation(self, v: dict, cap=200):
        if len(self.violations) < cap:
            self.violations.append(jsonable(v))
        self.add("violating_cases")

    def merge_worker(self, w: dict):
        """w = {'cov': {...}, 'viol': [...], 'outcomes': [...], 'samples': [...], 'known': {...}}"""
        for k, v in w.get("cov", {}).items():
            self.add(k, v)
        for v in w.get("viol", []):
            self.violation(v)
        self.outcomes.update(w.get("outcomes", ()))
        for s in w.get("samples", []):
            self.sample(s)
        for k, v in w.get("known", {}).items():
            self.known[k] = self.known.get(k, 0) + v


def write_evidence(res: Result, rule: str, exhaustive: bool = True) -> str:
    os.makedirs(EVIDENCE_DIR, exist_ok=True)
    cov = dict(res.cov)
    cov.setdefault("states", max(1, cov.get("programs", 0)))
    cov.setdefault("transitions", max(1, cov.get("evaluations", 0)))
    cov.setdefault("traces_validated_against_impl", cov.get("evaluations", 0))
    cov.setdefault("evaluations", cov["transitions"])
    cov["distinct_outcomes"] = len(res.outcomes)
    cov.setdefault("distinct_nontrivial", max(len(res.outcomes), 0))
    cov["rule"] = rule
    cov["samples"] = res.samples or ["(no sample recorded)"]
    cov["exhaustive"] = bool(exhaustive and not res.caps)
    cov["caps_hit"] = res.caps
    cov["known_findings_hit"] = res.known
    ev = {
        "property_id": res.pid,
        "tier": tier(),
        "seed": seed(),
        "level": res.level,
        "coverage": jsonable(cov),
        "assumptions": res.assumptions,
        "wall_s": round(time.time() - res.t0, 3),
        "violations": len(res.violations),
        "repo": REPO,
    }
    path = os.path.join(EVIDENCE_DIR, f"{res.pid}.json")
    os.makedirs(EVIDENCE_DIR, exist_ok=True)
    tmp = f"{path}.{os.getpid()}.tmp"
    with open(tmp, "w") as f:
        json.dump(ev, f, indent=1, sort_keys=True, ensure_ascii=True)
    os.replace(tmp, path)
    return path


def write_replay(pid: str, v: dict) -> str:
    d = os.path.join(REPLAY_DIR, pid)
    os.makedirs(d, exist_ok=True)
    blob = json.dumps(jsonable(v), sort_keys=True, ensure_ascii=True, indent=1)
    h = hashlib.sha1(blob.encode()).hexdigest()[:12]
    path = os.path.join(d, f"{h}.json")
    with open(path, "w") as f:
        f.write(blob)
    return path


def int_str(v: int) -> str:
    """decimal digits of an int WITHOUT CPython's int/str digit limit (which is a process-wide setting the library under
    test might have changed): chunked conversion"""
    try:
        return str(v)
    except ValueError:
        pass
    neg, v = v < 0, abs(v)
    base = 10**1000
    parts = []
    while v:
        v, r = divmod(v, base)
        parts.append(r)
    digits = "".join((str(p).rjust(1000, "0") for p in reversed(parts))).lstrip("0") or "0"
    return ("-" if neg else "") + digits


def int_parse(s: str) -> int:
    try:
        return int(s)
    except ValueError:
        pass
    neg = s.startswith("-")
    d = s.lstrip("+-")
    v = 0
    for i in range(0, len(d), 1000):
        chunk = d[i : i + 1000]
        v = v * 10 ** len(chunk) + int(chunk)
    return -v if neg else v


def short(x, n=300):
    try:
        s = x if isinstance(x, str) else repr(x)
    except ValueError:  # (repr of a huge int under a lowered digit limit)
        s = f"<{type(x).__name__} whose repr() raises ValueError>"
    return s if len(s) <= n else s[: n - 20] + f"...(+{len(s) - n + 20})"


# ---------------------------------------------------------------- value (de)serialisation for replays
def enc(v):
    if isinstance(v, bool) or v is None or isinstance(v, str):
        return v
    if isinstance(v, int):
        return v if abs(v) < 2**53 else {"i": int_str(v)}
    if isinstance(v, float):
        return {"f": repr(v)}
    if isinstance(v, tuple):
        return {"t": [enc(x) for x in v]}
    if isinstance(v, list):
        return {"l": [enc(x) for x in v]}
    if isinstance(v, dict):
        return {"d": [[enc(k), enc(x)] for k, x in v.items()]}
    if isinstance(v, (set, frozenset)):
        return {"s": sorted((enc(x) for x in v), key=repr)}
    if isinstance(v, (bytes, bytearray)):
        return {"b": bytes(v).hex(), "ba": isinstance(v, bytearray)}
    if isinstance(v, complex):
        return {"c": [repr(v.real), repr(v.imag)]}
    if isinstance(v, range):
        return {"rg": [v.start, v.stop, v.step]}
    if type(v).__name__ in ("Fraction", "Decimal"):
        return {"num": type(v).__name__, "v": str(v)}
    return {"r": repr(v)}


def dec(v):
    if isinstance(v, dict):
        if "i" in v:
            return int_parse(v["i"])
        if "f" in v:
            return float(v["f"])
        if "t" in v:
            return tuple(dec(x) for x in v["t"])
        if "l" in v:
            return [dec(x) for x in v["l"]]
        if "d" in v:
            return {dec(k): dec(x) for k, x in v["d"]}
        if "s" in v:
            return frozenset(dec(x) for x in v["s"])
        if "b" in v:
            return bytearray.fromhex(v["b"]) if v.get("ba") else bytes.fromhex(v["b"])
        if "c" in v:
            return complex(float(v["c"][0]), float(v["c"][1]))
        if "rg" in v:
            return range(*v["rg"])
        if "num" in v:
            import decimal
            import fractions

            return fractions.Fraction(v["v"]) if v["num"] == "Fraction" else decimal.Decimal(v["v"])
        raise ValueError(f"cannot decode {v}")
    return v


def run_in_flagged_child(module: str, func: str, units, flags=("-O",), timeout=900, env_extra=None):
    """call  <module>.<func>(units)  in a child interpreter started with `flags` (e.g. -O / -OO: asserts and
    `if __debug__:` blocks are compiled out) and environment `env_extra` (XPROC_* knobs are applied by
    mc.xproc_child before the library is imported) and return its (JSON) result"""
    import json
    import subprocess

    code = ("import json,sys; from mc import xproc_child as xc; xc.apply_environment_knobs(); from mc import common; common.bind_repo(); "
            "import importlib; "
            f"m = importlib.import_module({module!r}); xc.after_import_knobs(); r = getattr(m, {func!r})(json.loads(sys.stdin.read())); "
            "sys.stdout.write('\\n@@RESULT@@' + json.dumps(common.jsonable(r)))")  # fmt: skip
    env = dict(os.environ, PYAB_REPO=REPO, PYTHONPATH=VERIF + os.pathsep + os.path.join(REPO, "src"), PYTHONDONTWRITEBYTECODE="1")
    env.update(env_extra or {})
    p = subprocess.run([sys.executable, *flags, "-c", code], input=json.dumps(units), capture_output=True, text=True, timeout=timeout, env=env, cwd=VERIF)
    if p.returncode != 0 or "@@RESULT@@" not in p.stdout:
        raise HarnessFault(f"child interpreter {flags} {env_extra} failed: {p.stderr[-800:]}")
    return json.loads(p.stdout.split("@@RESULT@@", 1)[1])


HOSTILE = [  # (interpreter flags, environment) of host applications the library may find itself in
    ((), {"XPROC_FAST_CLOCK": "1", "TZ": "Pacific/Kiritimati", "HOME": "/nonexistent", "USER": "nobody"}),
    (("-O",), {"XPROC_DECIMAL_PREC": "2", "XPROC_WARN_ERROR": "1"}),
    (("-OO",), {"XPROC_RECURSION": "4000", "XPROC_NOGC": "1", "PYTHONHASHSEED": "12345"}),
    # str/bytes comparisons are errors, every logger is at DEBUG (arguments of guarded debug lines are evaluated), few file descriptors
    (("-bb",), {"XPROC_LOG_DEBUG": "1", "XPROC_MAX_FDS": "48"}),
    (("-X", "dev"), {"XPROC_LOG_DEBUG": "1", "PYTHONHASHSEED": "7"}),
]
# a host whose OpenSSL refuses MD5 for security purposes (FIPS mode): the library may fail there, it may not hand out other
# assignments.  MC_FAIL_CLOSED_OK makes the oracle accept an exception in place of a group.
HOSTILE_FIPS = ((), {"OPENSSL_CONF": os.path.join(VERIF, "tools", "openssl-fips.cnf"), "XPROC_FIPS": "1", "MC_FAIL_CLOSED_OK": "1"})


def hostile_runs(res, module: str, func: str, units, extra_configs=()):
    """repeat a small part of a check in child interpreters that imitate unusual host applications (plus every
    environment variable the library's source mentions set to junk); violations carry the configuration"""
    junk = {n: "xproc-junk" for n in library_env_names() if not n.startswith(("XPROC_", "PYAB_REPO"))}
    configs = list(HOSTILE) + list(extra_configs) + ([((), junk)] if junk else [])
    from concurrent.futures import ThreadPoolExecutor

    def one(cfg):
        flags, env = cfg
        return cfg, run_in_flagged_child(module, func, units, flags, env_extra=env)

    with ThreadPoolExecutor(len(configs)) as ex:
        for (flags, env), r in ex.map(one, configs):
            for v in r.get("viol", []):
                v["host_environment"] = {"flags": list(flags), "env": env}
            r["outcomes"] = [f"host:{'/'.join(flags) or 'plain'}:{o}" for o in r.get("outcomes", [])][:40]
            r["samples"] = []
            res.merge_worker(r)
    res.set("host_environments", len(configs))


def replay_in_host(data, module, func, units):
    h = data.get("host_environment")
    r = run_in_flagged_child(module, func, units, tuple(h["flags"]), env_extra=h["env"])
    bad = [v for v in r.get("viol", []) if v.get("kind") == data.get("kind")]
    return bool(bad), (str(bad[0].get("why", bad[0].get("observed")))[:300] + f" [host {h}]" if bad else f"no violation under {h}")


def library_env_names():
    """names of environment variables the library's own source mentions (static scan of the working tree):
    a process in which they are set to junk must behave like any other"""
    import re

    rx = re.compile(r"""(?:environ(?:\.get|\.setdefault|\.pop)?\s*[\[(]\s*|getenv\s*\(\s*)[rbu]?['"]([A-Za-z_][A-Za-z0-9_]*)['"]""")
    names = set()
    root = os.path.join(REPO, "src", "pyab_experiment")
    for d, _dirs, files in os.walk(root):
        for f in files:
            if f.endswith(".py"):
                try:
                    names.update(rx.findall(open(os.path.join(d, f), encoding="utf-8", errors="replace").read()))
                except OSError:
                    pass
    return sorted(names)
