"""C10 - one hash position per unit: weight changes move only units at the boundary.

For every unit id the groups observed under EVERY explored weight vector (all of E-weights, the
two-group ramps, relabelled groups, and every return statement of multi-return programs the same
id is routed through) are turned into position intervals [c_{g-1}/T, c_g/T); all of them must
share a common point (one hash position per unit) and that point must be the published one.  A
common point for all vectors implies the monotonicity statement for every ordered pair of them;
the two-group ramps are additionally compared pairwise."""
from __future__ import annotations

from fractions import Fraction
from itertools import product

from .. import impl, progcheck
from ..common import enc, pmap, permuted, quiet, short
from ..enum import weights as ew
from ..ref import parse as rp
from ..ref import sem

LEVEL = "model_checking"
RULE = ("states = (unit id, weight vector / return statement) observations of the real compiled experiments; "
        "transitions = evaluations; oracle = non-empty intersection of the exact position intervals of all "
        "observations of one unit (one grid point of slack per boundary), containing the published position; "
        "pairwise monotonicity on ramps")  # fmt: skip

G = Fraction(1, 1 << 32)
_EV = None
_TOGGLE = [0]


def interval(ws, g):
    T = sum(ws)
    lo = sum(ws[:g], Fraction(0)) / T
    return lo - G, lo + ws[g] / T + G


def ids_for(tier):
    n = 512 if tier == "quick" else 4096
    from ..enum import collide

    twins = [x for pre, a, b in collide.crc32_id_pairs(prefixes=("",)) for x in (a, b)]  # crc32-colliding keys of equal length
    return list(range(n)) + [f"user{i}@example.com" for i in range(n // 8)] + ["", "é", "00000001"] + twins


def observe(acc, v, ids, labels=None, salt=None):
    """compile the single-return experiment for v, return {id: group index}"""
    labels = labels or [f"g{i}" for i in range(len(v))]
    ast = ("prog", "e", salt, ("uid",), ("ret", tuple(zip(labels, v))))
    text = rp.render(ast)
    acc.add("programs")
    # the same evaluator object is RECOMPILED from vector to vector (like a service polling its configuration);
    # every other observation uses a fresh evaluator, so both ways of getting there are covered
    global _EV
    _TOGGLE[0] += 1
    b = None
    if _EV is not None and _TOGGLE[0] % 2:
        try:
            with quiet():
                _EV.recompile(str(text))
            b = ("ok", _EV)
        except Exception:  # noqa
            b = None
    if b is None:
        b = impl.build(text)
        if b[0] == "ok":
            _EV = b[1]
    if b[0] != "ok":
        acc.violation({"kind": "pos:build", "sub": "build", "text": text, "observed": list(b)})
        return None
    idx = {lab: i for i, lab in enumerate(labels)}
    out = {}
    for u in ids:
        acc.add("evaluations")
        r = impl.call(b[1], {"uid": u})
        if r[0] != "ok" or r[1] not in idx:
            acc.violation({"kind": "pos:eval", "sub": "eval", "text": text, "env": enc({"uid": u}), "observed": short(repr(r))})
            out[u] = None
        else:
            out[u] = idx[r[1]]
    return out


def _work(units):
    acc = progcheck.Acc()
    res = {}
    for u in units:
        if u[0] == "url-ramp":
            # ONE evaluator whose configuration is edited step by step (labels look like URLs, weights on the same line):
            # raising the first share must never move a unit to a later group, and every step must be consistent with one position
            labels = ["http://cdn.example/a", "http://cdn.example/b"]
            ev = None
            prev = None
            for t in (3, 1, 2, 4, 9, 10):
                text = f'def e {{ splitters: uid return "{labels[0]}" weighted {t}, "{labels[1]}" weighted {10 - t} }}'
                try:
                    if ev is None:
                        ev = impl.ExperimentEvaluator(text)
                    else:
                        with quiet():
                            ev.recompile(text)
                except Exception as e:  # noqa
                    acc.violation({"kind": "pos:build", "sub": "build", "text": text, "observed": f"{type(e).__name__}: {e}"})
                    break
                acc.add("programs")
                ws = [Fraction(t), Fraction(10 - t)]
                for uid in range(200):
                    acc.add("evaluations")
                    r = impl.call(ev, {"uid": uid})
                    k = Fraction(sem.hash_k(str(uid)), 1 << 32)
                    g = labels.index(r[1]) if r[0] == "ok" and r[1] in labels else None
                    lo, hi = interval(ws, g) if g is not None and ws[g] > 0 else (Fraction(2), Fraction(-1))
                    if not (lo <= k <= hi):
                        acc.violation({"kind": "pos:edited", "sub": "eval", "text": text, "id": enc(uid), "observed": short(repr(r)),
                                       "why": f"after editing the weights to {t}:{10 - t} on the same evaluator, unit {uid} is not where its hash position {float(k):.6f} puts it"})  # fmt: skip
                        break
            continue
        if u[0] == "relabel":
            # the same weights under unique labels and under repeated / look-alike labels: the ENTRY a unit gets (by
            # position) must be the same, whatever the labels say
            _, v, labels, ids = u
            uniq = observe(acc, v, ids)
            ast = ("prog", "e", None, ("uid",), ("ret", tuple(zip(labels, v))))
            text = rp.render(ast, sep=" /* w */ ")  # (one line, a block comment between all tokens: the layout is not part of the program)
            if rp.classify(text) != ("accept", ast):
                text = rp.render(ast)
            b = impl.build(text)
            acc.add("programs")
            if uniq is None or b[0] != "ok":
                if b[0] != "ok":
                    acc.violation({"kind": "pos:build", "sub": "build", "text": text, "observed": list(b)})
                continue
            from .. import oracle

            for uid in ids:
                acc.add("evaluations")
                r = impl.call(b[1], {"uid": uid})
                g = uniq.get(uid)
                if g is None:
                    continue
                if r[0] != "ok" or not oracle.same_value(r[1], labels[g]):
                    acc.violation({"kind": "pos:relabel", "sub": "eval", "text": text, "id": enc(uid), "vector": list(v), "labels": enc(list(labels)), "observed": short(repr(r)),
                                   "why": f"with unique labels unit {uid!r} gets entry #{g} of weights {list(v)}; with labels {list(labels)!r} it gets {r!r}, not entry #{g}'s label {labels[g]!r}"})  # fmt: skip
                    break
            continue
        if u[0] == "seam":
            # the position is GIVEN (first 32 digest bits substituted): every vector's group must contain it
            from .. import seam
            from . import c03

            n0 = len(acc.viol)
            c03.check_vector(acc, u[1], 6, 0, seam.HashSeam())
            for v in acc.viol[n0:]:
                v["kind"] = "pos:seam-" + v["kind"]
            continue
        if u[0] == "vec":
            _, v, ids, labels = u
            ob = observe(acc, v, ids, labels)
            if ob is None:
                continue
            ws = ew.fr(v)
            # fold this vector's observation into per-id (lo, hi) as integers scaled by 2^40 to keep it cheap
            for uid, g in ob.items():
                if g is None:
                    continue
                lo, hi = interval(ws, g)
                cur = res.get(uid)
                if cur is None:
                    res[uid] = [lo, hi, tuple(v), tuple(v)]
                else:
                    if lo > cur[0]:
                        cur[0], cur[2] = lo, tuple(v)
                    if hi < cur[1]:
                        cur[1], cur[3] = hi, tuple(v)
    out = acc.out()
    out["pos"] = {repr(k): (str(a), str(b), c, d) for k, (a, b, c, d) in res.items()}
    return out


def run(res, tier):
    ids = ids_for(tier)
    N = 3 if tier == "quick" else 4
    vs = [(v, None) for v in ew.small_vectors(N)] + [(v, None) for v in ew.families() + ew.families_large()]
    vs += [([str(t), str(10 - t)], None) for t in range(0, 11)]
    from . import c03 as _c03

    vs += [(v, None) for v in _c03.special_vectors()]  # weights with >= 7 significant digits / tiny multi-digit decimals
    vs += [(["1", "2", "3"], ["zeta", "alpha", "mid"]), (["1", "2", "3"], [3, 1.5, "g"]), (["1", "9"], ["B", "A"])]
    units = [("vec", v, ids, labels) for v, labels in vs]
    seam_vs = _c03.special_vectors() + [[str(t), str(10 - t)] for t in range(0, 11)] + [["100.0", "100.0004"], ["100.0004", "100.0006"], ["0.1234567", "0.7654321"],
                                                                                       ["1000000.5", "1000000.25", "3.000001"]]
    seam_vs += [v for _k, v in _c03.crafted_vectors()]  # boundary a quarter grid point after a chosen position, exact in binary64
    units += [("seam", v) for v in seam_vs]
    units.append(("url-ramp",))
    RELABEL = list(_c03.REPEATS) + [(["10", "80", "10"], ["new", "old", "new"]), (["1", "8", "1"], ["new", "old", "new"]), (["10", "90"], ["new", "old"]), (["1", "1", "1"], ["b", "a", "b"]),
                                    (["3", "1", "2", "1"], ["x", "y", "z", "y"]), (["1", "2", "3", "4", "5", "6"], ["a", "b", "c", "c", "b", "a"]), (["1"] * 12, list("abcabcabcabc")),
                                    (["1", "1", "1"], [1, "1", 1.0]), (["5", "0", "5"], ["k", "k", "k"])]
    units += [("relabel", v, labels, ids[:256]) for v, labels in RELABEL]
    merged = {}
    for w in pmap(_work, permuted(units, "c10"), chunk=12):
        pos = w.pop("pos")
        res.merge_worker(w)
        for k, (a, b, c, d) in pos.items():
            a, b = Fraction(a), Fraction(b)
            cur = merged.get(k)
            if cur is None:
                merged[k] = [a, b, c, d]
            else:
                if a > cur[0]:
                    cur[0], cur[2] = a, c
                if b < cur[1]:
                    cur[1], cur[3] = b, d
    # oracle 1: a common position exists and it is the published one
    for u in ids:
        cur = merged.get(repr(u))
        if cur is None:
            continue
        lo, hi, vlo, vhi = cur
        k = Fraction(sem.hash_k(sem.hash_key(None, ("uid",), {"uid": u})), 1 << 32)
        res.add("units_checked")
        if not (lo < hi):
            res.violation({"kind": "pos:inconsistent", "id": enc(u), "vectors": [list(vlo), list(vhi)],
                           "why": f"no single hash position explains the groups of unit {u!r} under weights {list(vlo)} and {list(vhi)}"})  # fmt: skip
        elif not (lo <= k <= hi):
            res.violation({"kind": "pos:not-published", "id": enc(u), "vectors": [list(vlo), list(vhi)],
                           "why": f"unit {u!r}: observed groups place the position in ({float(lo)}, {float(hi)}), the published scheme says {float(k)}"})  # fmt: skip
        res.outcomes.add(float(lo) // 0.05)
    # oracle 2: pairwise monotonicity on the two-group ramps (first share grows from 0% to 100%)
    ramp_ids = ids[:256]
    acc = progcheck.Acc()
    prev = None
    for t in range(0, 11):
        ob = observe(acc, [str(t), str(10 - t)], ramp_ids)
        if prev is not None and ob is not None:
            for u in ramp_ids:
                res.add("pairs_checked")
                if prev[u] is not None and ob[u] is not None and ob[u] > prev[u]:
                    res.violation({"kind": "pos:ramp", "id": enc(u), "vectors": [[str(t - 1), str(11 - t)], [str(t), str(10 - t)]],
                                   "why": f"unit {u!r} moved to a LATER group when the first group's share was raised"})  # fmt: skip
        prev = ob
    # oracle 3: the same unit through every return statement of multi-return programs
    multi_return(res, ids[:128])
    res.merge_worker(acc.out())
    res.sample({"unit": repr(ids[3]), "position_interval": [float(merged[repr(ids[3])][0]), float(merged[repr(ids[3])][1])],
                "published": sem.hash_k(str(ids[3])) / 2**32, "vectors": len(vs)})  # fmt: skip
    res.set("states", res.cov.get("evaluations", 0))
    res.set("transitions", res.cov.get("evaluations", 0))
    res.set("traces_validated_against_impl", res.cov.get("units_checked", 0))
    res.set("bounds", {"vectors": len(vs), "ids": len(ids)})


RETS = [(("a0", "1"), ("b0", "1")), (("a1", "1"), ("b1", "9")), (("a2", "3"), ("b2", "1"), ("c2", "4")), (("a3", "0"), ("b3", "0.5"), ("c3", "0.5"))]


def multi_return(res, ids):
    from ..enum import shapes as esh

    for P in (1, 2, 3):
        for sk in esh._C(P):
            cond = esh._number(sk, {"p": 0, "r": 0})

            def relabel(c):
                if c is None:
                    return None
                if c[0] == "ret":
                    j = int(c[1][0][0][1:])
                    return ("ret", RETS[j % len(RETS)])
                if c[0] == "else":
                    return ("else", relabel(c[1]))
                return (c[0], c[1], relabel(c[2]), relabel(c[3]))

            ast = ("prog", "e", "slt", ("uid",), relabel(cond))
            text = rp.render(ast)
            b = impl.build(text)
            res.add("programs")
            if b[0] != "ok":
                res.violation({"kind": "pos:build", "text": text, "observed": list(b)})
                continue
            for u in ids:
                why = branches_consistent(res, ast, b[1], u)
                if why:
                    res.violation({"kind": "pos:branches", "text": text, "id": enc(u), "why": why})


def branches_consistent(res, ast, ev, u):
    """route unit u through every return statement (all truth assignments of the condition
    fields); all observed groups must be explained by one position, the published one"""
    rets = rp.returns(ast[4])
    names = rp.cond_ids(ast[4])
    lo, hi = Fraction(-1), Fraction(2)
    for asg in product((1, 0), repeat=len(names)):
        env = dict(zip(names, asg), uid=u)
        r = impl.call(ev, env)
        if res is not None:
            res.add("evaluations")
        if r[0] != "ok":
            continue
        for ret in rets:
            labs = [g for g, _ in ret[1]]
            if r[1] in labs:
                a, c = interval(ew.fr([w for _, w in ret[1]]), labs.index(r[1]))
                lo, hi = max(lo, a), min(hi, c)
    k = Fraction(sem.hash_k((ast[2] or "") + str(u)), 1 << 32)
    if not (lo < hi) or not (lo <= k <= hi):
        return f"unit {u!r} does not keep one (published) hash position across the return statements: interval ({float(lo)}, {float(hi)}), published {float(k)}"
    return None


def replay(data):
    from ..common import dec

    acc = progcheck.Acc()
    k = data["kind"]
    if k.startswith("pos:seam-"):
        from . import c03

        return c03.replay(dict(data, kind=k[len("pos:seam-"):]))
    u = dec(data["id"])
    if k.startswith("pos:seam-"):
        from . import c03

        return c03.replay(dict(data, kind=k[len("pos:seam-"):]))
    if k == "pos:relabel":
        from ..common import dec as _dec

        r = _work([("relabel", data["vector"], _dec(data["labels"]), [u])])
        return bool(r["viol"]), (r["viol"][0].get("why", "build failure") if r["viol"] else "the entry does not depend on the labels")
    if k == "pos:edited":
        r = _work([("url-ramp",)])
        return bool(r["viol"]), (r["viol"][0].get("why", "recompile raised") if r["viol"] else "every step follows the weights last given")
    if k in ("pos:inconsistent", "pos:not-published", "pos:ramp"):
        lo, hi = Fraction(-1), Fraction(2)
        gs = []
        for v in data["vectors"]:
            ob = observe(acc, v, [u])
            g = ob[u]
            gs.append(g)
            a, c = interval(ew.fr(v), g)
            lo, hi = max(lo, a), min(hi, c)
        kk = Fraction(sem.hash_k(str(u)), 1 << 32)
        if k == "pos:ramp":
            return gs[1] > gs[0], f"groups under the two vectors: {gs}"
        return (not (lo < hi) or not (lo <= kk <= hi)), f"groups {gs}: position interval ({float(lo)}, {float(hi)}), published {float(kk)}"
    if k == "pos:branches":
        cl = rp.classify(data["text"])
        b = impl.build(data["text"])
        if cl[0] != "accept" or b[0] != "ok":
            return True, f"no longer compiles: {b}"
        why = branches_consistent(None, cl[1], b[1], u)
        return bool(why), why or "consistent"
    return False, "unknown kind"
