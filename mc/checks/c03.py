"""C03 - weights partition the hash space exactly, in declared order.

For every weight vector of E-weights a single-return experiment is compiled by the real
pipeline; the hash position is then driven over E-grid through the MD5 seam (first 32 digest
bits substituted, everything after it real) and over real unit ids whose position R-hash
computes.  Oracle: exact Fraction partition with the one-grid-point tolerance where binary64
cannot be exact, exact equality where it can, zero weights never, wide groups reachable."""
from __future__ import annotations

import json
import os
from fractions import Fraction

from .. import impl, oracle, progcheck, seam
from ..common import VERIF, enc, pmap, permuted, short
from ..enum import weights as ew
from ..ref import parse as rp
from ..ref import sem

LEVEL = "model_checking"
RULE = ("states = (weight vector, hash position) pairs driven through the compiled experiment; transitions = "
        "evaluations of the real compiled function; every one compared with the exact rational partition "
        "(tolerance one grid point only where binary64 is inexact). distinct_outcomes = distinct (vector length, group index) "
        "pairs returned")  # fmt: skip

BOUNDS = {"quick": dict(N=3, coarse=10, ids=1024), "thorough": dict(N=4, coarse=12, ids=4096)}


def prog_for(v, salt=None, labels=None):
    labels = labels or [f"g{i}" for i in range(len(v))]
    return ("prog", "e", salt, ("uid",), ("ret", tuple(zip(labels, v))))


def check_vector(acc, v, coarse, nids, hs, labels=None):
    ws = ew.fr(v)
    unique = labels is None
    labels = labels or [f"g{i}" for i in range(len(v))]
    ast = prog_for(v, labels=labels)
    text = rp.render(ast)
    acc.add("programs")
    b = impl.build(text)
    if b[0] != "ok":
        acc.violation({"kind": "vector", "sub": "build", "text": text, "observed": list(b)})
        return
    ev = b[1]
    hit = set()
    ks = ew.grid(ws, coarse_bits=coarse)
    calls0 = hs.calls
    with hs:
        for k in ks:
            hs.k = k
            acc.add("evaluations")
            out = impl.call(ev, {"uid": "x"})
            ex = sem.part_exact(ws, k)
            allowed = {ex} if sem.float_exact(ws, k) else sem.part_allowed(ws, k)
            got = None
            if out[0] == "ok":
                got = next((i for i in sorted(allowed) if oracle.same_value(out[1], labels[i])), None)
            if got is None:
                acc.violation({"kind": "grid", "sub": "eval", "text": text, "k": k, "weights": v, "labels": labels,
                               "observed": short(repr(out)), "why": f"position k={k} (u=k/2^32): exact group {ex}, acceptable {sorted(allowed)}"})  # fmt: skip
            else:
                hit.add(got)
                acc.outcomes.add(f"{len(v)}:{got}")
    if hs.calls == calls0:
        acc.add("seam_ineffective")
    elif unique:
        # strict clause: a group whose exact interval holds >= 2 grid points is selectable
        T = sum(ws)
        c = Fraction(0)
        for i, w in enumerate(ws):
            lo, hi = c * (1 << 32) / T, (c + w) * (1 << 32) / T
            c += w
            npts = -(-hi.numerator // hi.denominator) - (-(-lo.numerator // lo.denominator))
            if npts >= 2 and i not in hit:
                acc.violation({"kind": "unreachable", "sub": "eval", "text": text, "weights": v, "group": i,
                               "why": f"group {i} spans {npts} grid points but was returned for none of the explored positions"})  # fmt: skip
    reprobe_previous(acc, ast, ev)
    # real ids: position from the published scheme
    for j in ([] if not nids else ["", " ", "0", 0, None, False, 0.0]) + list(range(nids)):  # (degenerate keys first: the empty key has a position like any other)
        acc.add("evaluations")
        env = {"uid": j}
        out = impl.call(ev, env)
        why = oracle.agree(out, oracle.expected(ast, env))
        if why:
            acc.violation({"kind": "realid", "sub": "eval", "text": text, "env": enc(env), "observed": short(repr(out)), "why": why})


_PREV = []


def reprobe_previous(acc, ast, ev):
    """the evaluator of the PREVIOUS vector, still alive, must still partition by its own weights now that another
    experiment of the same name has been compiled"""
    if _PREV:
        past, pev = _PREV[0]
        for uid in ("", 0, 1, 2, 3, "x", 17, 255):
            acc.add("evaluations")
            why = oracle.agree(impl.call(pev, {"uid": uid}), oracle.expected(past, {"uid": uid}))
            if why:
                acc.violation({"kind": "realid", "sub": "eval", "text": rp.render(past), "env": enc({"uid": uid}), "after": rp.render(ast),
                               "why": "after another experiment was compiled, this (still living) evaluator no longer partitions by its own weights: " + why})  # fmt: skip
                break
    _PREV[:] = [(ast, ev)]


def _work(units):
    acc = progcheck.Acc()
    hs = seam.HashSeam()
    for u in units:
        if u[0] == "crafted":
            for k, v in crafted_vectors():
                ws = ew.fr(v)
                b = impl.build(rp.render(prog_for(v)))
                if b[0] != "ok":
                    acc.violation({"kind": "vector", "sub": "build", "text": rp.render(prog_for(v)), "observed": list(b)})
                    continue
                with hs:
                    for kk in (k - 1, k, k + 1):
                        if not (0 <= kk < 2**32):
                            continue
                        hs.k = kk
                        acc.add("evaluations")
                        out = impl.call(b[1], {"uid": "x"})
                        ex = sem.part_exact(ws, kk)
                        allowed = {ex} if sem.float_exact(ws, kk) else sem.part_allowed(ws, kk)
                        if out[0] != "ok" or out[1] not in {f"g{i}" for i in allowed}:
                            acc.violation({"kind": "grid", "sub": "eval", "text": rp.render(prog_for(v)), "k": kk, "weights": v, "observed": short(repr(out)),
                                           "why": f"position k={kk}: exact group {ex}, acceptable {sorted(allowed)} (boundary a quarter grid point after k={k})"})  # fmt: skip
            continue
        if u[0] == "hashtwins":
            for a, b in hash_twin_vectors():
                for v in (a, b, a):
                    check_vector(acc, v, 6, 32, hs)
            continue
        v, coarse, nids = u[:3]
        check_vector(acc, v, coarse, nids, hs, labels=(u[3] if len(u) > 3 else None))
    return acc.out()


# weights with several significant digits at small / large magnitudes (decimal-place bookkeeping, scaling)
SPECIAL = ["0.000025", "0.00005", "0.0000000015", "123456.789", "0.3333333", "0.1000001", "99999999.5", "0.0000002", "0.000000999", "1.000000001"]
# repeated / look-alike group labels in one return statement (the partition is by POSITION, not by label)
REPEATS = [(["1", "1", "2"], ["a", "b", "a"]), (["0", "1", "1"], ["a", "b", "a"]), (["1", "1", "1", "1"], ["a", "b", "a", "b"]), (["1", "2", "1"], ["a", "a", "b"]),
           (["1", "1", "1", "3"], ["a", "b", "b", "a"]), (["1", "1", "1"], [1, 1.0, 1]), (["2", "1", "1"], [0, "0", 0.0]), (["1", "0", "1", "0", "1"], ["x", "x", "y", "y", "x"]),
           (["0.5", "0.5", "1"], ["", " ", ""]), (["1"] * 8, ["a", "b", "c", "a", "b", "c", "a", "b"])]


# near-equal weights (an "all equal -> unweighted" shortcut with a tolerance), at several magnitudes
NEAR_EQUAL = [["0.000000001", "0.0000000010005"], ["0.0000000010005", "0.000000001"], ["1.0000000001", "1"], ["1", "1.0000000001", "1"], ["1000000", "1000000.0000001"],
              ["0.1", "0.10000000000001"], ["3.4", "3.4000000001", "3.4"], ["0.000000001", "0.000000001", "0.0000000010000001"]]


def hash_twin_vectors():
    """pairs of weight vectors whose tuples have the SAME Python hash although the weights differ:
    hash(1 + 2^-k) == hash(1 + 2^(61-k)) for floats / ints (modulus 2^61 - 1).  Evaluated one after the other."""
    out = []
    for k in (32, 35, 41, 45):
        f = repr(1 + 2.0**-k)
        i = str(1 + 2 ** (61 - k))
        assert hash(float(f)) == hash(int(i)) and float(f) != int(i)
        out.append(([f, "1"], [i, "1"]))
        out.append(([i, "1", "2"], [f, "1", "2"]))
    out.append((["0.5", "1"], ["1152921504606846976", "1"]))  # hash(0.5) == hash(2**60)
    return out


def crafted_vectors():
    """integer vectors with total 2^34 whose first boundary lies a quarter grid point after a chosen position k
    (exact in binary64): the unit AT k belongs to the first group, however many further digest bits exist"""
    out = []
    for k in (1, 12345, 2**31, 2**32 - 5, 858993459):
        for first, last in ((4 * k + 1, 4), (4 * k + 2, 1), (4 * k + 3, 2)):
            mid = 2**34 - first - last
            if first > 0 and mid > 0:
                out.append((k, [str(first), str(mid), str(last)]))
    return out


def special_vectors():
    out = [list(v) for v in NEAR_EQUAL]
    for s in SPECIAL:
        for w in ew.W + SPECIAL:
            if s != w:
                out += [[s, w], [w, s]]
        for w in ("1", "0", "0.5", "1000000000"):
            for s2 in SPECIAL[:4]:
                out.append([s, w, s2])
    seen, res = set(), []
    for v in out:
        if tuple(v) not in seen and any(float(x) > 0 for x in v):
            seen.add(tuple(v))
            res.append(v)
    return res


def witness_check(res):
    """Committed ids whose real MD5 prefix lands exactly on / next to boundaries (found once by
    tools/md5_witness.c); every witness is re-verified with hashlib before use."""
    path = os.path.join(VERIF, "tools", "witnesses.json")
    if not os.path.exists(path):
        res.set("witness_ids", 0)
        return
    wit = json.load(open(path))
    n = 0
    for wv in wit["vectors"]:
        ast = prog_for(wv)
        b = impl.build(rp.render(ast))
        if b[0] != "ok":
            continue
        for ent in wit["ids"]:
            uid, k = ent["id"], ent["k"]
            if sem.hash_k(sem.hash_key(None, ("uid",), {"uid": uid})) != k:
                raise AssertionError(f"stale witness {ent}")
            env = {"uid": uid}
            out = impl.call(b[1], env)
            n += 1
            why = oracle.agree(out, oracle.expected(ast, env))
            if why:
                res.violation({"kind": "witness", "sub": "eval", "text": rp.render(ast), "env": enc(env), "k": k,
                               "observed": short(repr(out)), "why": why})  # fmt: skip
    res.set("witness_ids", len(wit["ids"]))
    res.add("evaluations", n)


def run(res, tier):
    b = BOUNDS[tier]
    vs = list(ew.small_vectors(b["N"])) + ew.families() + ew.families_large()
    units = [(v, b["coarse"] if len(v) <= 3 else 8, b["ids"] if len(v) <= 3 else 256) for v in vs]
    units += [(v, 8, 64) for v in special_vectors()]
    units += [(v, 10, 256, labels) for v, labels in REPEATS]
    units.append(("hashtwins",))
    units.append(("crafted",))
    for w in pmap(_work, permuted(units, "c03"), chunk=8):
        res.merge_worker(w)
    witness_check(res)
    from ..common import hostile_runs

    hostile_runs(res, "mc.checks.c03", "_work", [[["12.5"] * 8, 6, 64], [["16.66", "16.67"] * 3, 6, 64], [["1", "2", "3"], 8, 64], [["0.1", "0.2", "0.7"], 8, 64], [["1", "1"], 8, 64]])
    if res.cov.get("seam_ineffective"):
        res.caps.append(f"MD5 seam ineffective for {res.cov['seam_ineffective']} vectors (binning no longer hashes through hashlib.md5): boundary positions only covered by real ids / witnesses")
    res.set("bounds", dict(b, vectors=len(vs)))
    res.set("states", res.cov.get("evaluations", 0))
    res.set("transitions", res.cov.get("evaluations", 0))
    res.set("traces_validated_against_impl", res.cov.get("evaluations", 0))
    res.assumptions += ["the hash position enters the choice only through the first 32 bits of hashlib.md5 as seen by the binning module (seam); its effectiveness is measured per vector",
                        "where every running sum and k*T are exactly representable in binary64 no tolerance is granted"]  # fmt: skip


def replay(data):
    kind = data.get("kind")
    if data.get("host_environment"):
        from ..common import replay_in_host

        return replay_in_host(data, "mc.checks.c03", "_work", [[data["weights"], 8, 64]])
    if kind == "realid" and "after" in data:
        from ..common import dec

        cl = rp.classify(data["text"])
        b = impl.build(data["text"])
        if cl[0] != "accept" or b[0] != "ok":
            return False, "the first text no longer compiles"
        impl.build(data["after"])
        env = dec(data["env"])
        why = oracle.agree(impl.call(b[1], env), oracle.expected(cl[1], env))
        return bool(why), why or "the living evaluator still follows its own weights"
    if kind in ("realid", "witness"):
        return progcheck.replay_eval(data)
    v = data["weights"]
    ws = ew.fr(v)
    b = impl.build(data["text"])
    if b[0] != "ok":
        return True, f"construction fails {b}"
    hs = seam.HashSeam()
    labels = data.get("labels") or [f"g{i}" for i in range(len(v))]
    if kind == "grid":
        k = data["k"]
        with hs:
            hs.k = k
            out = impl.call(b[1], {"uid": "x"})
        ex = sem.part_exact(ws, k)
        allowed = {ex} if sem.float_exact(ws, k) else sem.part_allowed(ws, k)
        ok = out[0] == "ok" and any(oracle.same_value(out[1], labels[i]) for i in allowed)
        return (not ok), f"k={k}: got {out!r}, acceptable groups {sorted(allowed)}"
    if kind == "unreachable":
        acc = progcheck.Acc()
        check_vector(acc, v, 10, 0, hs)
        bad = [x for x in acc.viol if x["kind"] == "unreachable"]
        return bool(bad), (bad[0]["why"] if bad else "group reachable")
    return False, "unknown replay kind"
