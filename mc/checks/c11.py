"""C11 - evaluator lifecycle: recompile is atomic, repeatable and instance-local.

Explicit-state BFS (mc/xlife.py) over histories of new / recompile / call on 2 (thorough: 3)
evaluator slots, over an alphabet of valid texts (same experiment name with other weights, same
text with other trivia, other name and fields) and invalid texts (lexical, syntactic,
grammatical-but-uncompilable).  After every transition every evaluator is probed on every input
and must behave like a fresh evaluator of the last text it accepted; every construction /
recompile is re-issued once (raise again / no-op)."""
from __future__ import annotations

import os

from .. import impl, xlife
from ..common import short

LEVEL = "model_checking"
RULE = ("states = distinct (model state, implementation fingerprint) pairs reached; transitions = real constructor / "
        "recompile / call executions (each construction and recompile also re-issued); after each transition the "
        "probe table of all evaluators is compared with fresh evaluators of the model's accepted texts")  # fmt: skip

A = 'def exp { salt: "s1" splitters: uid, org if f == 1 { return "A1" weighted 1, "A2" weighted 1 } else { return "A3" weighted 1, "A4" weighted 3 } }'
TEXTS = {
    "A": A,
    "A_trivia": '/* same meaning */ def exp {\n salt: "s1" // c\n splitters: uid, org\n if f == 1 { return "A1" weighted 1, "A2" weighted 1 } /* x */ /* y */ else { return "A3" weighted 1, "A4" weighted 3 } }\n',
    "A_weights": A.replace('"A2" weighted 1', '"A2" weighted 7').replace('"A4" weighted 3', '"A4" weighted 0'),
    "B": 'def other { splitters: org if g > 2 { return "B1" weighted 2, "B2" weighted 1 } }',
    "bad_lex": 'def exp { salt: "s1" splitters: uid return "L1" weighted 1 @ }',
    "bad_syn": 'def exp { splitters: uid return "S1" weighted 1, "S2" weighted }',
    "bad_py": 'def class { splitters: uid return "P1" weighted 1 }',
    # texts that end inside a block comment (whatever a fresh constructor does with them is the model)
    "open_comment_after": A + " /* never closed",
    "open_comment_inside": 'def exp { splitters: uid /* never closed  return "O1" weighted 1 }',
    "named_map": 'def map { splitters: uid return "M1" weighted 1, "M2" weighted 1 }',  # an experiment named like a helper of the generated code
    # experiments named like the evaluator's own attributes (an instance attribute created under the experiment's name would shadow them)
    "named_recompile": 'def recompile { splitters: uid return "R1" weighted 1, "R2" weighted 1 }',
    "named_run_experiment": 'def run_experiment { splitters: uid return "X1" weighted 1, "X2" weighted 2 }',
    "named__checksum": 'def _checksum { splitters: uid return "K1" weighted 2, "K2" weighted 1 }',
    "bad_bom": 'def exp { splitters: uid \ufeff return "Y1" weighted 1 }',
    "bad_empty": "",
    "bad_two_defs": A + "\n" + 'def other { splitters: org return "X" weighted 1 }',
}
# texts that differ from A but collide with it under weak "has the source changed?" detectors
from ..enum import collide as _collide  # noqa: E402

TEXTS.update(_collide.twins(A, 'def exp { splitters: uid return "V1" weighted 1, "V2" weighted 1 }', 'def exp { splitters: uid return "S1" weighted }',
                            'def exp { splitters: uid return "L1" weighted 1 ; }'))
INPUTS = [
    {"uid": 1, "org": "a", "f": 1, "g": 3},
    {"uid": "1", "org": "b", "f": 0, "g": 0},
    {"uid": True, "org": "a", "f": 1, "g": 3},  # == 1 but prints differently (an untyped memo would merge them)
    {"org": "a", "g": 3},  # exactly the fields of text B (an evaluator that still demands a previous text's fields fails here)
    {"uid": 1.0, "org": "a", "f": 1.0, "g": 3},
    {"uid": 2, "org": "a", "f": 1, "g": 9},
]


def spec_for(tier):
    if tier == "quick":
        return xlife.Spec(TEXTS, INPUTS[:5], slots=2, depth=3)
    return xlife.Spec(TEXTS, INPUTS, slots=3, depth=4)


def long_text(i):
    return f'def exp {{ salt: "L" splitters: uid return "L{i}a" weighted 1, "L{i}b" weighted {1 + i % 5}, "L{i}c" weighted 2 }}'


def _long_work(units):
    """deep linear histories (cumulative effects: caches with eviction, rings, counters): one or two
    evaluators are recompiled through many distinct texts in cycles of period p; after every step the
    evaluator is probed and must give exactly the reference result of the text it was last given."""
    from .. import oracle
    from ..common import quiet
    from ..ref import parse as rp

    out = {"cov": {}, "viol": [], "outcomes": [], "samples": [], "known": {}}
    probes = [{"uid": u, "f": f} for u, f in ((1, 0), ("1", 1), (7, 2), ("x", 11), (2.5, 39))]
    asts = {}

    def expect_ok(ev, i, hist, text=None):
        if len(asts) > 64:
            asts.clear()
        a = asts.setdefault(text or i, rp.parse(text or long_text(i)))
        for x in probes:
            got = impl.call(ev, x)
            why = oracle.agree(got, oracle.expected(a, x))
            out["cov"]["probes"] = out["cov"].get("probes", 0) + 1
            if why:
                out["cov"]["violating_cases"] = out["cov"].get("violating_cases", 0) + 1
                if len(out["viol"]) < 3:
                    out["viol"].append({"kind": "life:long", "period": hist[0], "steps": hist[1], "evaluators": hist[2], "text_index": i,
                                        "why": f"after {hist[1]} recompiles cycling through {hist[0]} texts the evaluator, last given text #{i}, returns {got!r}: {why}"})  # fmt: skip
                return False
        return True

    for period, rounds, nev in units:
        if rounds == "stack":
            # fault injection by stack exhaustion: the compile of a VALID text is attempted with exactly r frames left, for every
            # r = 1..R (it fails at a different depth of the pipeline each time, or succeeds); whatever happened, the evaluator then
            # behaves like the text it last accepted, and the same text compiled again with a normal stack is accepted (by this
            # evaluator, by another one and by the constructor) - a transient failure must leave nothing behind
            import sys

            R, which = period, nev
            ev, ev2 = impl.ExperimentEvaluator(long_text(5000)), impl.ExperimentEvaluator(long_text(5001))
            cur = 5000

            def depth():
                f, n = sys._getframe(), 0
                while f is not None:
                    f, n = f.f_back, n + 1
                return n

            def attempt(fn, r):
                old = sys.getrecursionlimit()
                try:
                    sys.setrecursionlimit(depth() + r)
                    try:
                        with quiet():
                            fn()
                        return "ok"
                    except RecursionError:
                        return "recursion"
                    except Exception as e:  # noqa
                        return type(e).__name__
                finally:
                    sys.setrecursionlimit(old)

            ok = True
            seen = set()
            for r in range(3, R + 1):
                nxt = 6000 + r
                txt = long_text(nxt) if which == 0 else f'def exp {{ salt: "L{nxt}" splitters: uid if f == 1 and not (f > 2 or f in (3, 4)) {{ return "a{nxt}" weighted 1, "b{nxt}" weighted 2 }} else {{ return "c{nxt}" weighted 1 }} }}'
                what = attempt((lambda: ev.recompile(txt)) if r % 2 else (lambda: impl.ExperimentEvaluator(txt)), r)
                seen.add(what)
                out["cov"]["transitions"] = out["cov"].get("transitions", 0) + 1
                if what == "ok" and r % 2:
                    cur = txt
                if what not in ("ok", "recursion"):
                    pass  # (an error of another class with an exhausted stack is still a refusal)
                hist = (R, f"compile with {r} frames left -> {what}", which)
                if not (expect_ok(ev, cur, hist, text=cur) if isinstance(cur, str) else expect_ok(ev, cur, hist)):
                    ok = False
                    break
                # now with a normal stack: this evaluator, another evaluator, the constructor
                for label, fn in (("recompile", lambda: ev.recompile(txt)), ("recompile of another evaluator", lambda: ev2.recompile(txt)), ("construction", lambda: impl.ExperimentEvaluator(txt))):
                    try:
                        with quiet():
                            rr = fn()
                    except Exception as e:  # noqa
                        out["cov"]["violating_cases"] = out["cov"].get("violating_cases", 0) + 1
                        out["viol"].append({"kind": "life:long", "period": R, "steps": "stack", "evaluators": which, "text_index": nxt,
                                            "why": f"a valid text whose compile was first attempted with {r} stack frames left ({what}) is refused afterwards with a normal stack: {label} raised {type(e).__name__}: {str(e)[:100]}"})  # fmt: skip
                        ok = False
                        break
                    out["cov"]["transitions"] = out["cov"].get("transitions", 0) + 1
                    target = rr if label == "construction" else (ev if label == "recompile" else ev2)
                    if not expect_ok(target, nxt, (R, f"compile with {r} frames left -> {what}, then {label}", which), text=txt):
                        ok = False
                        break
                cur = txt
                if not ok:
                    break
            out["outcomes"] += [f"stack:{which}:{w}" for w in sorted(seen)]
            continue
        if rounds == "resource":
            # the SAME text gives the SAME outcome (accepted / refused) whatever else was compiled in between in this process:
            # very large programs (refused or not - that is measured, not assumed) around other very large programs
            sizes = period

            def ladder(n, deep_not=0):
                last = ("not " * deep_not) + "f == -1"
                body = " else ".join([f'if f == {j} {{ return "r{j}" weighted 1 }}' for j in range(n)] + [f'if {last} {{ return "z" weighted 1 }}'])
                return f'def exp {{ splitters: uid {body} }}'

            texts = [ladder(n, dn) for n, dn in sizes]

            def outcome(t):
                b = impl.build(t)
                return "ok" if b[0] == "ok" else "refused"

            first = [outcome(t) for t in texts]
            for i, t in enumerate(texts):
                for j, other in enumerate(texts):
                    outcome(other)
                    again = outcome(t)
                    out["cov"]["transitions"] = out["cov"].get("transitions", 0) + 2
                    if again != first[i]:
                        out["cov"]["violating_cases"] = out["cov"].get("violating_cases", 0) + 1
                        out["viol"].append({"kind": "life:long", "period": [list(x) for x in sizes], "steps": "resource", "evaluators": 1, "text_index": i,
                                            "why": f"an else-if ladder of {sizes[i][0]} rungs (+{sizes[i][1]} nested nots) was {first[i]} at first and is {again} after a ladder of {sizes[j][0]} rungs was compiled in the same process"})  # fmt: skip
                        break
            out["outcomes"].append("resource:" + ",".join(first))
            continue
        if rounds == "fleet":
            # many evaluators ALIVE at the same time (a per-evaluator resource such as an open file), with few file descriptors
            import resource

            n = period
            soft, hard = resource.getrlimit(resource.RLIMIT_NOFILE)
            used = len(os.listdir("/proc/self/fd")) if os.path.isdir("/proc/self/fd") else 64
            try:
                resource.setrlimit(resource.RLIMIT_NOFILE, (used + 40, hard))
                fleet = []
                for i in range(n):
                    try:
                        with quiet():
                            fleet.append(impl.ExperimentEvaluator(long_text(7000 + i)))
                    except Exception as e:  # noqa
                        out["cov"]["violating_cases"] = out["cov"].get("violating_cases", 0) + 1
                        out["viol"].append({"kind": "life:long", "period": n, "steps": "fleet", "evaluators": n, "text_index": 7000 + i,
                                            "why": f"with {i} other evaluators alive (and {used + 40} file descriptors allowed) a valid text cannot be compiled: {type(e).__name__}: {str(e)[:100]}"})  # fmt: skip
                        break
                    out["cov"]["transitions"] = out["cov"].get("transitions", 0) + 1
                else:
                    for i in list(range(0, n, 7)) + [n - 1]:
                        with quiet():
                            fleet[i].recompile(long_text(8000 + i))
                        if not expect_ok(fleet[i], 8000 + i, (n, "fleet", n)) or not expect_ok(fleet[(i + 1) % n], 7000 + (i + 1) % n if (i + 1) % n not in set(list(range(0, n, 7)) + [n - 1]) or (i + 1) % n > i else 8000 + (i + 1) % n, (n, "fleet", n)):
                            break
            finally:
                resource.setrlimit(resource.RLIMIT_NOFILE, (soft, hard))
            out["outcomes"].append(f"fleet:{n}")
            continue
        if rounds == "ladder":
            # n consecutive REJECTED recompiles (late errors: all nodes were already built) for every n = 1..K, each followed
            # by a valid recompile, a fresh construction and a recompile of a second evaluator: state that accumulates over
            # failures (counters, budgets, partially filled tables) must not leak into the next successful compile
            (branches, which), K = period, nev
            body = " else ".join(f'if f == {j} {{ return "r{j}" weighted 1, "s{j}" weighted 2 }}' for j in range(branches))
            bad_texts = [f'def exp {{ salt: "L" splitters: uid {body} @ }}', f'def exp {{ salt: "L" splitters: uid {body} else {{ return "z" weighted }} }}',
                         f'def class {{ salt: "L" splitters: uid {body} }}', f'def exp {{ salt: "L" splitters: uid {body} }} def', f'def exp {{ salt: "L" splitters: uid {body} else {{ return "unterminated weighted 1 }} }}']

            def big(i):  # a VALID text as large as the rejected one (the corrected publication)
                return f'def exp {{ salt: "L{i}" splitters: uid {body} else {{ return "z{i}" weighted 1, "y{i}" weighted {1 + i % 3} }} }}'

            ev, ev2 = impl.ExperimentEvaluator(long_text(2000)), impl.ExperimentEvaluator(long_text(2001))
            cur, step, ok = 2000, 0, True
            for bad_text in bad_texts[which : which + 1]:
                for n in list(range(1, K + 1)) + [4 * K]:
                    for j in range(n):
                        try:
                            with quiet():
                                ev.recompile(bad_text)
                            raised = False
                        except Exception:  # noqa
                            raised = True
                        out["cov"]["transitions"] = out["cov"].get("transitions", 0) + 1
                        if not raised:
                            out["cov"]["violating_cases"] = out["cov"].get("violating_cases", 0) + 1
                            out["viol"].append({"kind": "life:long", "period": [branches, which], "steps": "ladder", "evaluators": K, "text_index": cur,
                                                "why": f"an invalid text ({branches} branches, late error) was accepted by recompile on attempt {j + 1} of {n}"})  # fmt: skip
                            ok = False
                            break
                    if ok and (n % 7 == 0) and not expect_ok(ev, cur, (branches, f"ladder of {n} rejected recompiles", K)):
                        ok = False
                    if not ok:
                        break
                    step += 1
                    nxt = 3000 + step
                    for what, fn, txt in (("recompile", lambda: ev.recompile(big(nxt)), big(nxt)), ("construction", lambda: impl.ExperimentEvaluator(long_text(nxt)), None),
                                          ("recompile of another evaluator", lambda: ev2.recompile(big(nxt + 1)), big(nxt + 1)), ("recompile", lambda: ev.recompile(long_text(nxt)), None)):
                        try:
                            with quiet():
                                r = fn()
                        except Exception as e:  # noqa
                            out["cov"]["violating_cases"] = out["cov"].get("violating_cases", 0) + 1
                            out["viol"].append({"kind": "life:long", "period": [branches, which], "steps": "ladder", "evaluators": K, "text_index": nxt,
                                                "why": f"after {n} consecutive rejected recompiles of an invalid text ({branches} branches, late error) the {what} from a VALID text raised {type(e).__name__}: {str(e)[:120]}"})  # fmt: skip
                            ok = False
                            break
                        out["cov"]["transitions"] = out["cov"].get("transitions", 0) + 1
                        target = r if what == "construction" else (ev if what == "recompile" else ev2)
                        if not expect_ok(target, nxt, (branches, f"ladder of {n} rejected recompiles, then {what}", K), text=txt):
                            ok = False
                            break
                    cur = nxt
                    if not ok:
                        break
                if not ok:
                    break
            out["outcomes"].append(f"ladder:{branches}:{ok}")
            continue
        if rounds == "bulk":
            # many distinct units on ONE evaluator, then a recompile to other salt / weights / labels, then the same
            # units again (result caches that survive a recompile); period = number of units
            n = abs(period)
            unsalted = period < 0  # negative size = the same history on experiments WITHOUT a salt (the empty key exists there)
            lt = (lambda i: long_text(i).replace('salt: "L" ', "")) if unsalted else long_text
            ev = impl.ExperimentEvaluator(lt(0))
            a1 = rp.parse(lt(1).replace('"L"', '"M"'))
            asts[0] = rp.parse(lt(0))
            special = ["", " ", "0", 0, None, False]  # falsy / empty keys first, then n distinct units, then again
            a0 = asts.setdefault(0, rp.parse(long_text(0)))
            for u in special:
                impl.call(ev, {"uid": u})
            for u in range(n):
                impl.call(ev, {"uid": u})
            for u in special + list(range(0, n, max(1, n // 50))):
                got = impl.call(ev, {"uid": u})
                out["cov"]["transitions"] = out["cov"].get("transitions", 0) + 1
                why = oracle.agree(got, oracle.expected(a0, {"uid": u}))
                if why:
                    out["cov"]["violating_cases"] = out["cov"].get("violating_cases", 0) + 1
                    out["viol"].append({"kind": "life:long", "period": n, "steps": "bulk", "evaluators": 1, "text_index": 0,
                                        "why": f"after {n} other distinct units were evaluated, unit {u!r} gets {got!r}: {why}"})  # fmt: skip
                    break
            with quiet():
                ev.recompile(lt(1).replace('"L"', '"M"'))
            bad = 0
            for u in list(range(n))[::-1] + list(range(n)):  # most recently served units first
                got = impl.call(ev, {"uid": u})
                out["cov"]["transitions"] = out["cov"].get("transitions", 0) + 1
                why = oracle.agree(got, oracle.expected(a1, {"uid": u}))
                if why:
                    bad += 1
                    if bad == 1:
                        out["cov"]["violating_cases"] = out["cov"].get("violating_cases", 0) + 1
                        out["viol"].append({"kind": "life:long", "period": n, "steps": "bulk", "evaluators": 1, "text_index": 1,
                                            "why": f"after {n} distinct units were evaluated and the evaluator was recompiled, unit {u} still gets {got!r}: {why}"})  # fmt: skip
            out["outcomes"].append(f"bulk:{period}:{bad == 0}")
            asts.pop(0, None)
            continue
        evs = [impl.ExperimentEvaluator(long_text(1000 + k)) for k in range(nev)]
        steps = 0
        ok = True
        for r in range(rounds):
            for j in range(period):
                for k, ev in enumerate(evs):
                    i = (j + 3 * k) % period if nev > 1 else j
                    with quiet():
                        ev.recompile(long_text(i))
                    steps += 1
                    out["cov"]["transitions"] = out["cov"].get("transitions", 0) + 1
                    if not expect_ok(ev, i, (period, steps, nev)):
                        ok = False
                        break
                if not ok:
                    break
            if not ok:
                break
        out["outcomes"].append(f"long:{period}:{nev}:{ok}")
    return out


def _long_work_safe(units):
    """_long_work unit by unit; an exception that comes out of the LIBRARY while a history of valid texts is being set up or
    driven (a valid text refused, an evaluator that cannot be called) is a violation of the lifecycle, not a harness fault"""
    import traceback

    out = {"cov": {}, "viol": [], "outcomes": [], "samples": [], "known": {}}
    for u in units:
        try:
            r = _long_work([u])
        except Exception as e:  # noqa
            tb = traceback.format_exc()
            if "pyab_experiment" not in tb.split("_long_work", 1)[-1]:
                raise
            r = {"cov": {"violating_cases": 1}, "viol": [{"kind": "life:long", "period": u[0] if not isinstance(u[0], tuple) else [list(x) if isinstance(x, tuple) else x for x in u[0]], "steps": u[1], "evaluators": u[2], "text_index": -1,
                                                         "why": f"driving a history of VALID texts failed inside the library: {type(e).__name__}: {str(e)[:160]} (in this process earlier histories had been run: state left behind by them)"}],
                 "outcomes": [], "samples": [], "known": {}}
        for k, v in r["cov"].items():
            out["cov"][k] = out["cov"].get(k, 0) + v
        out["viol"] += r["viol"]
        out["outcomes"] += r["outcomes"]
    return out


def _pairs_work(units):
    """(current text, other text) colliding under a 32-bit fingerprint: recompile(other) on an evaluator
    built from `current` must do what a fresh construction from `other` does (switch or raise) - twice"""
    from ..common import quiet

    out = {"cov": {}, "viol": [], "outcomes": [], "samples": [], "known": {}}
    probes = [{"uid": u, "country": ("us", "zz", "ca")[j % 3], "us": ("zz", "us", "us")[j % 3], "n": j % 2} for j, u in enumerate((1, "1", 7, "x", 2, 3, 4, 5, 6, 8, 9, 10))]
    from .. import oracle
    from ..ref import parse as rp

    def agrees(ev, ast):
        """every probe result is exactly (value AND type) what the reference scheme gives for `ast`"""
        for x in probes:
            if oracle.agree(impl.call(ev, x), oracle.expected(ast, x)):
                return False
        return True

    for name, cur, other in units:
        ccl, ocl = rp.classify(cur), rp.classify(other)
        if ccl[0] != "accept":
            continue
        if ocl[0] == "ambiguous" or any(0xD800 <= ord(ch) <= 0xDFFF for ch in other):
            # (a text holding a lone surrogate has no UTF-8 form: outside the language, the fresh constructor is the model)
            fresh = impl.build(other)  # documentation silent: whatever a fresh constructor does is the model
            want_ok = fresh[0] == "ok"
            want_ast = None
            want = [impl.call(fresh[1], x) for x in probes] if want_ok else None
        else:
            want_ok, want_ast, want = ocl[0] == "accept", (ocl[1] if ocl[0] == "accept" else None), None
        b = impl.build(cur)
        if b[0] != "ok":
            continue
        cur_fine = agrees(b[1], ccl[1])
        for attempt in (1, 2):
            try:
                with quiet():
                    b[1].recompile(other)
                raised = False
            except Exception:  # noqa
                raised = True
            out["cov"]["transitions"] = out["cov"].get("transitions", 0) + 1
            if want_ok:
                ok = not raised and (agrees(b[1], want_ast) if want_ast is not None else repr([impl.call(b[1], x) for x in probes]) == repr(want))
            else:
                ok = raised and (agrees(b[1], ccl[1]) or not cur_fine)
            out["outcomes"].append(f"pair:{name.split('/')[0][:24]}:{want_ok}:{ok}")
            if not ok:
                out["cov"]["violating_cases"] = out["cov"].get("violating_cases", 0) + 1
                out["viol"].append({"kind": "life:collision", "fingerprint": name, "current": cur, "text": other, "attempt": attempt,
                                    "why": f"recompile of a text that a careless change detector / cache would confuse with the current one ({name.split('/')[0]}): " +
                                           ("it must switch to the new experiment (value and type of every group)" if want_ok else "it is invalid and must raise every time, changing nothing") +
                                           f"; raised={raised}"})  # fmt: skip
                break
    return out


def impl_free_valid(text):
    """the `current` text of a pair must be grammatical (decided by the reference, not by the implementation)"""
    from ..ref import parse as rp

    return rp.classify(text)[0] == "accept"


def collision_pairs(res):
    import json

    from ..common import VERIF, pmap
    from ..enum import collide

    path = os.path.join(VERIF, "tools", "collision_pairs.json")
    if not os.path.exists(path):
        return
    fps = collide._fingerprints()
    units = []
    for name, (cur, other) in sorted(json.load(open(path))["pairs"].items()):
        fp = fps[name.split("/")[0]]
        if fp(cur.encode()) != fp(other.encode()) or cur == other:
            raise AssertionError(f"stale collision pair {name}")
        units.append((name, cur, other))
    # texts that a NORMALISING change detector / parse cache would confuse: they differ only inside a comment-looking
    # region of a string literal, only in blanks / exotic line-boundary characters inside a literal, only in letter case
    T = 'def exp {{ splitters: uid return {0} weighted 3, "z" weighted 1 }}'
    twins = [('"http://old.example/a"', '"http://new.example/b"'), ('"img/*.png"', '"img/*.jpg"'), ('"x//y"', '"x//z"'), ('"p q"', '"p  q"'), ('"p\x0cq"', '"p\x0c q"'),
             ('"p\rq"', '"p\r q"'), ('"p\u2028q"', '"p\x85q"'), ('"Pq"', '"pq"'), ('"q "', '"q"'), ("'s'", '"s"'), ('"a\tb"', '"a b"'), ('"é"', '"e\u0301"'),
             ('"home page"', '"homepage"'), ('"a b"', '"ab"'), ('" "', '""'), ('"x\ty"', '"xy"'), ('"q"', "'q '"), ('"it\'s"', '"its"'), ('"pricing\'"', '"pricing"'),
             ('"1"', "1"), ("1", "1.0"), ('"http://old.example/a"', '"http://old.example/a'), ('"x//y"', '"x//y'), ('"p\x0cq"', '"p\x0cq')]
    # texts that collide under a LOSSY ENCODING of the source (errors="replace" / "ignore" / charref / backslash / name escapes,
    # ASCII or Latin-1 targets) or under a Unicode normalisation / case folding of it
    twins += [('"ready?"', '"ready\ud83d"'), ('"ready"', '"ready\ud83d"'), ('"ready?"', '"ready\udce9"'), ('"é"', '"?"'), ('"日"', '"?"'), ('"日"', '"本"'), ('"é"', '"&#233;"'),
              ('"é"', '"\\xe9"'), ('"é"', '"\\N{LATIN SMALL LETTER E WITH ACUTE}"'), ('"é"', '""'), ('"日本"', '""'), ('"ﬁ"', '"fi"'), ('"Å"', '"Å"'), ('"ｘ"', '"x"'),
              ('"ß"', '"ss"'), ('"İ"', '"i̇"'), ('"x²"', '"x2"'), ('"a\u00a0b"', '"a b"'), ('"a\u200bb"', '"ab"'), ('"\ufeffa"', '"a"'), ('"a\x00"', '"a"'), ('"a\x00b"', '"a"')]
    for a, b in twins:
        units.append((f"twin:{a}|{b}", T.format(a), T.format(b)))
        units.append((f"twin:{b}|{a}", T.format(b), T.format(a)))
    # the same WORDS as different tokens: a field reference vs. a string literal of the same spelling, a number vs. a string of
    # its digits, keyword-looking literals (a change detector that compares token VALUES, or a token-insensitive normal form)
    T2 = 'def exp {{ splitters: uid if country == {0} {{ return "a" weighted 3, "b" weighted 1 }} else {{ return "c" weighted 1 }} }}'
    for a, b in [('"us"', "us"), ("us", '"us"'), ('"1"', "1"), ("n", '"n"'), ("'us'", "us"), ('("us", "ca")', "(us, \"ca\")"), ('"country"', "country")]:
        units.append((f"token-twin:{a}|{b}", T2.format(a), T2.format(b)))
    T3 = 'def exp {{ splitters: uid if country {0} {{ return "a" weighted 3, "b" weighted 1 }} else {{ return "c" weighted 1 }} }}'
    for a, b in [('in ("us", "ca")', 'not in ("us", "ca")'), ('== "us" or n == 1', '== "us" and n == 1'), ('== "us"', '!= "us"'), ('not in ("us")', 'in ("us")')]:
        units.append((f"token-twin:{a}|{b}", T3.format(a), T3.format(b)))
        units.append((f"token-twin:{b}|{a}", T3.format(b), T3.format(a)))
    # layout twins: equal after collapsing white space, different meaning (a line break ends a // comment; blanks in a literal are data)
    L1 = 'def exp { splitters: uid return "a" weighted 3 // , "b" weighted 1\n , "z" weighted 1 }'
    L2 = 'def exp { splitters: uid return "a" weighted 3 //\n , "b" weighted 1 , "z" weighted 1 }'
    L3 = 'def exp { splitters: uid return "a" weighted 3 // , "b" weighted 1 , "z" weighted\n }'
    L4 = 'def exp { splitters: uid return "a" weighted 3 // , "b" weighted 1 ,\n "z" weighted }'
    for name, a, b in (("layout-twin:comment-break", L1, L2), ("layout-twin:comment-break-rev", L2, L1), ("layout-twin:valid-to-invalid", L3, L4), ("layout-twin:tabs", L1, L1.replace(" //", "\t//")),
                       ("layout-twin:crlf", L1, L1.replace("\n", "\r\n")), ("layout-twin:literal-blanks", T.format('"wave 1"'), T.format('"wave  1"'))):
        units.append((name, a, b))
    units = [u for u in units if impl_free_valid(u[1])]
    for w in pmap(_pairs_work, units, chunk=4, inline_ok=False):
        res.merge_worker(w)
    res.set("fingerprint_collision_pairs", len(units))


def replay_collision(data):
    r = _pairs_work([(data["fingerprint"], data["current"], data["text"])])
    return bool(r["viol"]), (r["viol"][0]["why"] if r["viol"] else "behaves like a fresh construction")


def long_histories(res, tier):
    from ..common import pmap

    periods = [1, 2, 3, 5, 8, 9, 15, 16, 17, 31, 32, 33, 63, 64, 65, 100, 127, 128, 129, 130, 257, 300] + ([255, 256, 257, 300, 511, 512, 513] if tier == "thorough" else [])
    units = [(p, 3, n) for p in periods for n in (1, 2)]
    units += [(n, "bulk", 1) for n in ([10, 300, 5000, 10000, 70000, -300, -70000] + ([140000, 300000, -140000] if tier == "thorough" else []))]
    units += [(150 if tier == "quick" else 400, "stack", which) for which in (0, 1)]
    units += [(((900, 150), (995, 0), (1500, 0)) if tier == "quick" else ((600, 0), (900, 150), (985, 0), (995, 0), (1200, 0), (1500, 0), (3000, 0)), "resource", 1)]
    units += [(n, "fleet", 1) for n in ((300,) if tier == "quick" else (300, 2000))]
    K = 32 if tier == "quick" else 96
    units += [((b, which), "ladder", K if b < 40 else K // 2) for b in (1, 3, 12, 40) for which in range(5)]
    for w in pmap(_long_work_safe, units, chunk=1, inline_ok=False):
        res.merge_worker(w)
    res.set("long_history_periods", periods)
    res.set("rejection_ladders", {"branches": [1, 3, 12, 40], "max_consecutive_rejections": K, "plus": 4 * K})


def replay_long(data):
    r = _long_work([(tuple(data["period"]) if isinstance(data["period"], list) else data["period"], data["steps"] if data.get("steps") in ("bulk", "ladder", "stack", "resource", "fleet") else 3, data["evaluators"])])
    return bool(r["viol"]), (r["viol"][0]["why"] if r["viol"] else "long history behaves like the model")


def run(res, tier):
    spec = spec_for(tier)
    xlife.explore(res, spec)
    long_histories(res, tier)
    collision_pairs(res)
    res.set("traces_validated_against_impl", res.cov.get("transitions", 0))
    res.set("bounds", {"slots": spec.slots, "depth": spec.depth, "texts": sorted(TEXTS), "inputs": len(spec.inputs), "accepted_by_fresh_constructor": sorted(k for k, v in spec.fresh.items() if v)})
    if res.cov.get("global_state_changed") and not res.cov.get("isolated_mode"):
        res.caps.append("module-level state of pyab_experiment changed during exploration: states are merged on the model + per-object fingerprint only")
    res.assumptions += ["'behaves like a fresh evaluator' is decided on the probe inputs; acceptance of a text is what a fresh constructor does with it"]


def replay(data):
    if data.get("kind") == "life:long":
        return replay_long(data)
    if data.get("kind") == "life:collision":
        return replay_collision(data)
    spec = spec_for("thorough")
    spec.prepare()
    if data.get("kind") == "life:two-fresh-evaluators":
        ok, tab, note = spec._fresh_one(data["text"])
        return bool(note), note or "two fresh evaluators agree"
    hist = [tuple(h) for h in data["history"]]
    objs, model, outs = spec.run_history(hist[:-1])
    op = hist[-1]
    got = spec.apply(objs, op)
    model1, want = spec.step_model(model, op)
    if op[0] == "call":
        if got != want:
            return True, f"{got} vs fresh {want}"
    elif got[0] != want:
        return True, f"{op}: outcome {got}, expected {want}"
    bad = spec.invariant(objs, model1)
    if bad:
        return True, f"probe mismatch {bad[0]}"
    if op[0] != "call":
        got2 = spec.apply(objs, op)
        _, want2 = spec.step_model(model1, op)
        if got2[0] != want2:
            return True, f"re-issue gave {got2}, expected {want2}"
        bad = spec.invariant(objs, model1)
        if bad:
            return True, f"probe mismatch after re-issue {bad[0]}"
    return False, "history behaves like the model"
