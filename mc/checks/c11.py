"""C11 - evaluator lifecycle: recompile is atomic, repeatable and instance-local.

Explicit-state BFS (mc/xlife.py) over histories of new / recompile / call on 2 (thorough: 3)
evaluator slots, over an alphabet of valid texts (same experiment name with other weights, same
text with other trivia, other name and fields) and invalid texts (lexical, syntactic,
grammatical-but-uncompilable).  After every transition every evaluator is probed on every input
and must behave like a fresh evaluator of the last text it accepted; every construction /
recompile is re-issued once (raise again / no-op)."""
from __future__ import annotations

from .. import impl, xlife
from ..common import short

LEVEL = "model_checking"
RULE = ("states = distinct (model state, implementation fingerprint) pairs reached; transitions = real constructor / "
        "recompile / call executions (each construction and recompile also re-issued); after each transition the "
        "probe table of all evaluators is compared with fresh evaluators of the model's accepted texts")  # fmt: skip

A = 'def exp { salt: "s1" splitters: uid, org if f == 1 { return "A1" weighted 1, "A2" weighted 1 } else { return "A3" weighted 1, "A4" weighted 3 } }'
TEXTS = {
    "A": A,
    "A_trivia": '/* same meaning */ def exp {\n salt: "s1" // c\n splitters: uid, org\n if f == 1 { return "A1" weighted 1, "A2" weighted 1 } /* x */ /* y */ else { return "A3" weighted 1, "A4" weighted 3 } }\n',
    "A_weights": A.replace('"A2" weighted 1', '"A2" weighted 7').replace('"A4" weighted 3', '"A4" weighted 0'),
    "B": 'def other { splitters: org if g > 2 { return "B1" weighted 2, "B2" weighted 1 } }',
    "bad_lex": 'def exp { salt: "s1" splitters: uid return "L1" weighted 1 @ }',
    "bad_syn": 'def exp { splitters: uid return "S1" weighted 1, "S2" weighted }',
    "bad_py": 'def class { splitters: uid return "P1" weighted 1 }',
    # texts that end inside a block comment (whatever a fresh constructor does with them is the model)
    "open_comment_after": A + " /* never closed",
    "open_comment_inside": 'def exp { splitters: uid /* never closed  return "O1" weighted 1 }',
    "bad_empty": "",
    "bad_two_defs": A + "\n" + 'def other { splitters: org return "X" weighted 1 }',
}
INPUTS = [
    {"uid": 1, "org": "a", "f": 1, "g": 3},
    {"uid": "1", "org": "b", "f": 0, "g": 0},
    {"uid": 2, "org": "a", "f": 1, "g": 9},
]


def spec_for(tier):
    if tier == "quick":
        return xlife.Spec(TEXTS, INPUTS[:2], slots=2, depth=3)
    return xlife.Spec(TEXTS, INPUTS, slots=3, depth=4)


def run(res, tier):
    spec = spec_for(tier)
    xlife.explore(res, spec)
    res.set("traces_validated_against_impl", res.cov.get("transitions", 0))
    res.set("bounds", {"slots": spec.slots, "depth": spec.depth, "texts": sorted(TEXTS), "inputs": len(spec.inputs), "accepted_by_fresh_constructor": sorted(k for k, v in spec.fresh.items() if v)})
    if res.cov.get("global_state_changed") and not res.cov.get("isolated_mode"):
        res.caps.append("module-level state of pyab_experiment changed during exploration: states are merged on the model + per-object fingerprint only")
    res.assumptions += ["'behaves like a fresh evaluator' is decided on the probe inputs; acceptance of a text is what a fresh constructor does with it"]


def replay(data):
    spec = spec_for("thorough")
    spec.prepare()
    if data.get("kind") == "life:two-fresh-evaluators":
        ok, tab, note = spec._fresh_one(data["text"])
        return bool(note), note or "two fresh evaluators agree"
    hist = [tuple(h) for h in data["history"]]
    objs, model, outs = spec.run_history(hist[:-1])
    op = hist[-1]
    got = spec.apply(objs, op)
    model1, want = spec.step_model(model, op)
    if op[0] == "call":
        if got != want:
            return True, f"{got} vs fresh {want}"
    elif got[0] != want:
        return True, f"{op}: outcome {got}, expected {want}"
    bad = spec.invariant(objs, model1)
    if bad:
        return True, f"probe mismatch {bad[0]}"
    if op[0] != "call":
        got2 = spec.apply(objs, op)
        _, want2 = spec.step_model(model1, op)
        if got2[0] != want2:
            return True, f"re-issue gave {got2}, expected {want2}"
        bad = spec.invariant(objs, model1)
        if bad:
            return True, f"probe mismatch after re-issue {bad[0]}"
    return False, "history behaves like the model"
