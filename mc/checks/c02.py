"""C02 - compiled routing equals if / else-if / else and operator semantics.

Exhaustive: every conditional shape with <= P predicates x every truth assignment (E-shape);
every boolean tree with <= L atoms in 3 parenthesisations x every assignment (E-pred); every
operator x operand form x literal kind x boundary value (E-op); cross product of 2-atom trees
with all ordered pairs of the 8 operators.  Oracle: R-eval (mc/ref/sem.py)."""
from __future__ import annotations

from itertools import product

from .. import impl, progcheck
from ..common import pmap, permuted
from ..enum import ops as eops
from ..enum import shapes as esh
from ..ref import parse as rp

LEVEL = "model_checking"
RULE = ("states = distinct programs compiled by the real pipeline; transitions = evaluations of the real "
        "compiled function; every evaluation is compared with the reference interpreter's selected return "
        "statement (one distinct label per return) or the unroutable error. distinct_outcomes = distinct "
        "(outcome class, label) pairs observed.")  # fmt: skip

BOUNDS = {"quick": dict(P=6, L=4), "thorough": dict(P=8, L=5)}


def _work(units):
    acc = progcheck.Acc()
    for u in units:
        kind = u[0]
        if kind == "shape":
            _, P, lo, hi = u
            names = [f"p{k}" for k in range(P)]
            sk = esh._C(P)
            for j in range(lo, hi):
                cond = esh._number(sk[j], {"p": 0, "r": 0})
                ast = esh.prog_of(cond)
                envs = [dict(e, u="id7") for e in esh.assignments(names)]
                progcheck.check_prog(acc, ast, envs, "shape", want_sample=(j == lo and lo % 997 == 0))
        elif kind == "pred":
            _, L, lo, hi = u
            names = [f"x{k}" for k in range(L)]
            tr = esh._T(L)
            for j in range(lo, hi):
                p = esh._number_pred(tr[j], [0], esh.default_atom)
                cond = ("if", p, ("ret", (("T", "1"),)), ("else", ("ret", (("F", "1"),))))
                ast = esh.prog_of(cond)
                envs = [dict(e, u="id7") for e in esh.assignments(names)]
                for mode in ("min", "full", "red"):
                    progcheck.check_prog(acc, ast, envs, "pred:" + mode, text=rp.render(ast, mode),
                                         want_sample=(j == lo and lo % 499 == 0 and mode == "min"))  # fmt: skip
        elif kind == "op":
            _, tag, p, envs = u
            cond = ("if", p, ("ret", (("T", "1"),)), ("else", ("ret", (("F", "1"),))))
            ast = esh.prog_of(cond)
            impl.build('def warmup { return "a" weighted 1 } /* TODO')  # (whatever was compiled before: an unterminated comment)
            progcheck.check_prog(acc, ast, [dict(e, u="id7") for e in envs], "op:" + tag, want_sample=False)
            for sep in ("\x0c", "\x0b ", "\r\n\t"):
                t2 = rp.render(ast, sep=sep)
                if rp.classify(t2) == ("accept", ast):
                    progcheck.check_prog(acc, ast, [dict(e, u="id7") for e in envs][:4], "op-ws:" + tag, text=t2)
            # and the same predicate with no else: false must be the unroutable error
            ast2 = esh.prog_of(("if", p, ("ret", (("T", "1"),)), None))
            progcheck.check_prog(acc, ast2, [dict(e, u="id7") for e in envs], "op-noelse:" + tag)
            # negated, and negated inside a conjunction (a rewrite of `not a < b` into `a >= b` is wrong for NaN)
            # the same program written with comments that contain \r, \x0c, U+2028 ... followed by code-looking text: the
            # routing must be that of the undecorated program (a comment runs to the next \n, nothing else ends it)
            deco = "// not\r not ( \x0c ) or \u2028 else { \x85 return \x1c 1 weighted 1 }\n"
            text = rp.render(ast).replace("{ ", "{ " + deco, 1).replace(" if ", " if " + "/* ( \r */ ", 1).replace(" { return", " /* ) */ { return", 1)
            if rp.classify(text) == ("accept", ast):
                progcheck.check_prog(acc, ast, [dict(e, u="id7") for e in envs], "op-decorated:" + tag, text=text)
            if p[2] == "not in":
                for gap in ("  ", "\t", "\n", " \r\n\t "):
                    t2 = rp.render(ast).replace("not in", "not" + gap + "in").replace("{", "{\n") + "\n"
                    if rp.classify(t2) == ("accept", ast):
                        progcheck.check_prog(acc, ast, [dict(e, u="id7") for e in envs], "op-spaced:" + tag, text=t2)
            ast3 = esh.prog_of(("if", ("not", p), ("ret", (("N", "1"),)), ("elif", ("and", p, ("not", ("not", p))), ("ret", (("P", "1"),)), None)))
            progcheck.check_prog(acc, ast3, [dict(e, u="id7") for e in envs], "op-not:" + tag)
        elif kind == "case":
            _, tag, ast, envs = u
            progcheck.check_prog(acc, ast, envs, "big:" + tag)
        elif kind == "cross":
            _, tj, i0, i1 = u
            a0, a1 = eops.CROSS_ATOMS[i0], eops.CROSS_ATOMS[i1]
            atoms = [("cmp", ("id", "x0"), a0[0], a0[1]), ("cmp", ("id", "x1"), a1[0], a1[1])]
            p = esh._number_pred(esh._T(2)[tj], [0], lambda k: atoms[k])
            cond = ("if", p, ("ret", (("T", "1"),)), ("elif", ("not", p), ("ret", (("F", "1"),)), None))
            ast = esh.prog_of(cond)
            envs = [{"x0": v0, "x1": v1, "u": 1} for v0, v1 in product(a0[2], a1[2])]
            progcheck.check_prog(acc, ast, envs, "cross", want_sample=(tj == 0 and i0 == i1))
    return acc.out()


def units(tier):
    b = BOUNDS[tier]
    out = []
    for P in range(0, b["P"] + 1):
        n = esh.count_shapes(P)
        step = max(1, min(64, (1 << 12) >> P))
        out += [("shape", P, lo, min(n, lo + step)) for lo in range(0, n, step)]
    for L in range(1, b["L"] + 1):
        n = esh.count_preds(L)
        step = max(1, min(64, 256 >> L))
        out += [("pred", L, lo, min(n, lo + step)) for lo in range(0, n, step)]
    out += [("op", tag, p, envs) for tag, p, envs in eops.op_cases()]
    # sizes beyond the shape enumeration: long boolean runs with one bracketed sub-expression, laziness of guarded comparisons
    from ..enum import idents as ei

    out += [("case", tag, a, e) for tag, a, e in ei.big() if tag.startswith(("boolmix", "lazy", "boolchain", "chain2", "nestchain"))]
    nt = esh.count_preds(2)
    out += [("cross", tj, i0, i1) for tj in range(nt) for i0 in range(8) for i1 in range(8)]
    return out


def run(res, tier):
    us = permuted(units(tier), "c02")
    res.set("bounds", BOUNDS[tier])
    for w in pmap(_work, us, chunk=4):
        res.merge_worker(w)
    res.set("states", res.cov.get("programs", 0))
    res.set("transitions", res.cov.get("evaluations", 0))
    res.set("traces_validated_against_impl", res.cov.get("evaluations", 0))
    res.assumptions += ["reference interpreter mc/ref/sem.py is the meaning of the DSL",
                        "field values are type-compatible with the literals they are compared to"]  # fmt: skip


def replay(data):
    return progcheck.replay_eval(data)
