"""C06 - text outside the grammar is rejected, never silently repaired.

Exhaustive token-level mutation of base programs (E-mut, depth 1 and depth 2 on small bases),
concatenations of definitions, every short character string embedded in a program (E-lexseq)
and one text per error cell of the implementation's LR table (E-lrcell).  Oracle: both readings
of the independent recogniser reject => every public compile entry point must fail."""
from __future__ import annotations

from itertools import product

from .. import impl, progcheck
from ..common import pmap, permuted, short
from ..enum import bases as eb
from ..enum import mut as em
from ..ref import parse as rp

LEVEL = "model_checking"
RULE = ("states = distinct mutant texts that BOTH readings of the reference recogniser reject; transitions = "
        "calls of the real entry points on them (ExperimentEvaluator, parse_source; generate_code when parse "
        "did not fail); a text the implementation turns into an evaluator / AST is a violation. Texts the "
        "reference accepts or finds ambiguous are counted separately and never alarmed on")  # fmt: skip


def judge(acc, kind, text, seen=None):
    if seen is not None:
        if text in seen:
            return
        seen.add(text)
    acc.add("mutants")
    cl = rp.classify(text)
    if cl[0] == "accept":
        acc.add("mutants_still_grammatical")
        return
    if cl[0] == "ambiguous":
        acc.add("ambiguous_skipped")
        return
    acc.add("programs")
    acc.add("evaluations", 2)
    b = impl.build(text)
    p = impl.parse(text)
    acc.outcomes.add(f"{kind}:{b[1] if b[0] == 'exc' else 'ACCEPTED'}")
    bad = []
    if b[0] == "ok":
        bad.append("ExperimentEvaluator(text) returned an evaluator")
    if p[0] == "ok":
        bad.append("parse_source(text) returned an AST")
        g = impl.gen(text)
        acc.add("evaluations")
        if g[0] == "ok":
            bad.append("generate_code(text) returned module text")
    if bad:
        acc.violation({"kind": "reject:" + kind, "sub": "accepted", "text": text, "observed": bad, "why": "reference: " + cl[1]})
    elif len(acc.samples) < 1:
        acc.samples.append({"text": short(text, 160), "reference": cl[1], "implementation": b[1]})


# hand-written near misses: plausible "extensions" a grammar change could start to accept
NEAR = [
    'def e { if f in () { return 1 weighted 1 } }', 'def e { if f in (1,2,) { return 1 weighted 1 } }', 'def e { return 1 weighted 1, }',
    'def e { return 1 weighted 1; }', 'def e { return 1 }', 'def e { return 1 weighted -1 }', 'def e { return 1 weighted "1" }', 'def e { return 1 weighted 1 2 }',
    'def e { return x weighted 1 }', 'def e { return (1,2) weighted 1 }', 'def e { return -"a" weighted 1 }', 'def e { return --1 weighted 1 }', 'def e { return - - 1 weighted 1 }',
    'def e { if f == --1 { return 1 weighted 1 } }', 'def e { if f == -(1) { return 1 weighted 1 } }', 'def e { if f == +1 { return 1 weighted 1 } }',
    'def e { salt: abc return 1 weighted 1 }', 'def e { salt: 1 return 1 weighted 1 }', 'def e { salt "s" return 1 weighted 1 }', 'def e { salt: "a" salt: "b" return 1 weighted 1 }',
    'def e { splitters: return 1 weighted 1 }', 'def e { splitters: a, return 1 weighted 1 }', 'def e { splitters: a b return 1 weighted 1 }', 'def e { splitters: "a" return 1 weighted 1 }',
    'def e { splitters: a salt: "s" return 1 weighted 1 }', 'def e { splitters: a splitters: b return 1 weighted 1 }', 'def "e" { return 1 weighted 1 }', 'def 1 { return 1 weighted 1 }',
    'def { return 1 weighted 1 }', 'e { return 1 weighted 1 }', 'def e return 1 weighted 1', 'def e { }', 'def e { return 1 weighted 1 } }', 'def e { { return 1 weighted 1 } }',
    'def e ( return 1 weighted 1 )', 'def e { if f { return 1 weighted 1 } }', 'def e { if not f { return 1 weighted 1 } }', 'def e { if 1 { return 1 weighted 1 } }',
    'def e { if f == 1 { } }', 'def e { if f == 1 return 1 weighted 1 }', 'def e { if (f == 1 { return 1 weighted 1 } }', 'def e { if f == 1) { return 1 weighted 1 } }',
    'def e { if f == 1 { return 1 weighted 1 } else }', 'def e { if f == 1 { return 1 weighted 1 } else return 2 weighted 1 }', 'def e { else { return 1 weighted 1 } }',
    'def e { if f == 1 { return 1 weighted 1 } else { return 2 weighted 1 } else { return 3 weighted 1 } }', 'def e { if f == 1 { return 1 weighted 1 } else { return 2 weighted 1 } else if g == 1 { return 3 weighted 1 } }',
    'def e { if f == 1 { return 1 weighted 1 } elif g == 1 { return 2 weighted 1 } }', 'def e { if f == 1 { return 1 weighted 1 } elseif g == 1 { return 2 weighted 1 } return 3 weighted 1 }',
    'def e { if f == 1 { return 1 weighted 1 } return 2 weighted 1 }', 'def e { return 1 weighted 1 return 2 weighted 1 }', 'def e { if f == 1 and { return 1 weighted 1 } }',
    'def e { if f == 1 && g == 2 { return 1 weighted 1 } }', 'def e { if f == 1 || g == 2 { return 1 weighted 1 } }', 'def e { if f = 1 { return 1 weighted 1 } }', 'def e { if f <> 1 { return 1 weighted 1 } }',
    'def e { if f === 1 { return 1 weighted 1 } }', 'def e { if f => 1 { return 1 weighted 1 } }', 'def e { if f =< 1 { return 1 weighted 1 } }', 'def e { if f ! = 1 { return 1 weighted 1 } }',
    'def e { if f > = 1 { return 1 weighted 1 } }', 'def e { if f !in (1) { return 1 weighted 1 } }', 'def e { if f not (1) { return 1 weighted 1 } }', 'def e { if f in not (1) { return 1 weighted 1 } }',
    'def e { if f is 1 { return 1 weighted 1 } }', 'def e { if f == 1 == 1 { return 1 weighted 1 } }', 'def e { if 1 < f < 3 { return 1 weighted 1 } }', 'def e { if (f == 1) == (g == 1) { return 1 weighted 1 } }',
    'def e { if f == 1 not and g == 1 { return 1 weighted 1 } }', 'def e { if and f == 1 { return 1 weighted 1 } }', 'def e { if f == (1 { return 1 weighted 1 } }', 'def e { if f == [1,2] { return 1 weighted 1 } }',
    'def e { if f == 1.5.2 { return 1 weighted 1 } }', 'def e { if f == 1. { return 1 weighted 1 } }', 'def e { if f == .5 { return 1 weighted 1 } }', 'def e { if f == 1e5 { return 1 weighted 1 } }', 'def e { if f == 0x10 { return 1 weighted 1 } }',
    'def e { if f == 1_000 { return 1 weighted 1 } }', 'def e { if f == "a" "b" { return 1 weighted 1 } }', "def e { if f == 'a\n' { return 1 weighted 1 }\n }".replace("\\n", "\n"), 'def e { if f == "a { return 1 weighted 1 } }',
    'def e { if f == True { return 1 weighted 1 } else { return None weighted 1 } }', 'def e { if f.g == 1 { return 1 weighted 1 } }', 'def e { if f[0] == 1 { return 1 weighted 1 } }', 'def e { if f(1) == 1 { return 1 weighted 1 } }',
    'def e { if f + 1 == 2 { return 1 weighted 1 } }', 'def e { if f - 1 == 2 { return 1 weighted 1 } }', 'def e { if f == 1 { return 1 weighted 1 } } def', 'def e { return 1 weighted 1 } def e { return 1 weighted 1 }',
    'def e { if f not /* c */ in (1) { return 1 weighted 1 } }', 'def e { if f not/**/in (1) { return 1 weighted 1 } }', 'def e { if f not // c\n in (1) { return 1 weighted 1 } }',
    'def e { if f == 1 { return 1 weighted 1 } else /* c */ if g == 1 { return 2 weighted 1 } }', 'def e { if f == 1 { return 1 weighted 1 } else // c\n if g == 1 { return 2 weighted 1 } }',
    'def e { if f == 1 { return 1 weighted 1 } el/**/se { return 2 weighted 1 } }', 'def e { re/**/turn 1 weighted 1 }', 'def e { return 1 weight/* */ed 1 }', 'de f e { return 1 weighted 1 }',
    'def e { if f = = 1 { return 1 weighted 1 } }', 'def e { if f >/**/= 1 { return 1 weighted 1 } }', 'def e { if f ! /**/ = 1 { return 1 weighted 1 } }', 'def e { return 1 weighted 1 /**/. 5 }',
    'def e { return 1 weighted 1./**/5 }', 'def e { return 1 weighted 1 .5 }', 'def e { return "a" "b" weighted 1 }', 'def e { return "a"/**/"b" weighted 1 }',
    'DEF e { return 1 weighted 1 }', 'def e { RETURN 1 weighted 1 }', 'def e { return 1 WEIGHTED 1 }', 'def e { If f == 1 { return 1 weighted 1 } }', 'def e { if f IN (1) { return 1 weighted 1 } }', 'def e { if f == 1 AND g == 2 { return 1 weighted 1 } }',
    'def e: return 1 weighted 1', 'def e():\n  return 1', 'experiment e { return 1 weighted 1 }', '{ "def": "e" }', '', ' ', '\n', '// only a comment', '/* only a comment */',
]  # fmt: skip

POISON = ['def e { return "a" weighted 1 } /* never closed', 'def e { /* never closed return "a" weighted 1 }', 'def e { return "a" weighted 1 @ }',
          'def e { return "a" weighted }', 'def e { salt: "unterminated }', 'def e { return "a" weighted 1 } // tail /*']

ALPHA = list("ax1 \n\"'/*-.=><!(){},:;@\\#") + ["if", "in"]  # 26 character classes
EMBED = ['def e {{ return "a" weighted 1{0}}}', 'def e {{ if x{0}== 1 {{ return 1 weighted 1 }} }}', '{0}def e {{ return 1 weighted 2 }}']


def _work(units):
    acc = progcheck.Acc()
    for u in units:
        if u[0] == "mut":
            _, name, lexs, lo, hi = u
            seen = set()
            for j, (kind, text) in enumerate(em.mutants(lexs)):
                if lo <= j < hi:
                    judge(acc, kind, text, seen)
        elif u[0] == "mut2":
            _, name, lexs, lo, hi = u
            seen = set()
            for j, l1 in enumerate(em.apply_all(lexs)):
                if lo <= j < hi:
                    for l2 in em.apply_all(l1):
                        judge(acc, "depth2", " ".join(l2), seen)
        elif u[0] == "concat":
            _, a, b = u
            for sep in (" ", "\n", " /* c */ ", ""):
                judge(acc, "concat", a + sep + b)
        elif u[0] == "lexseq":
            _, first, m = u
            for rest in product(ALPHA, repeat=m - 1):
                s = first + "".join(rest)
                for tpl in EMBED:
                    judge(acc, "lexseq", tpl.format(s))
                    judge(acc, "lexseq-sp", tpl.format(" " + s + " "))
        elif u[0] == "after":
            # rejection must not depend on what was compiled before in this process
            _, poison = u
            todo = [("after-near", t) for t in NEAR]
            for j in em.JUNK + ["@ ; = . return return }", "x", "1 2 3"]:
                for tail in ('def second { return 1 weighted 1 }', 'def e { splitters: u return "a" weighted 1, "b" weighted 1 }'):
                    todo += [("after-junk", j + " */ " + tail), ("after-junk", j + " " + tail), ("after-junk", j + "\n*/\n" + tail)]
            for kind, t in todo:
                impl.build(poison)  # the history: one compile of the poison text immediately before
                judge(acc, kind, t)
            for v in acc.viol:
                if v["kind"].startswith("reject:after") and "before" not in v:
                    v["before"] = poison
        elif u[0] == "recompile":
            # the recompile entry point: a rejected text must raise there too (also when it collides with the
            # current text under a weak change detector) and must leave the evaluator as it was
            _, base = u
            from ..enum import collide

            bad = [("near", t) for t in NEAR]
            for body in ('def e { return "a" weighted }', 'def e { return "a" weighted 1 ; }', 'def e { return "a" weighted 1 } }', 'x def e { return "a" weighted 1 }'):
                bad.append(("crc32-twin", collide.crc32_twin(base, body)))
                bad.append(("crc32-zero", collide.crc32_twin(0, body)))
                bad.append(("crc32-ones", collide.crc32_twin(0xFFFFFFFF, body)))
                try:
                    bad.append(("lensum-twin", collide.same_length_and_sum(base, body)))
                except ValueError:
                    pass
            # rejected texts that a NORMALISING change detector would take for the current one: equal after collapsing white space
            # (the line break that ends a // comment moved), after case folding, after dropping the last line
            currents = {None: base}
            cur_ws = base + " // tail }"
            currents["ws"] = cur_ws
            bad.append(("layout-twin", base + " //\n tail }", "ws"))
            bad.append(("layout-twin", base + " //\ntail }", "ws"))
            bad.append(("case-twin", base.replace("def ", "DEF ", 1), None))
            bad.append(("case-twin", base.replace(" return ", " Return ", 1), None))
            bad.append(("case-twin", base.replace(" weighted ", " WEIGHTED ", 1), None))
            bad = [x if len(x) == 3 else (x[0], x[1], None) for x in bad]
            built = {}
            probe = {"uid": 1, "org": "a", "f": 1}
            for kind, t, cur in bad:
                if cur not in built:
                    bb = impl.build(currents[cur])
                    built[cur] = (bb, impl.call(bb[1], probe) if bb[0] == "ok" else None)
                b, before = built[cur]
                if b[0] != "ok":
                    continue
                cl = rp.classify(t)
                if cl[0] != "reject":
                    acc.add("ambiguous_skipped")
                    continue
                acc.add("programs")
                acc.add("evaluations", 2)
                try:
                    with __import__("mc.common", fromlist=["quiet"]).quiet():
                        b[1].recompile(t)
                    raised = False
                except Exception:  # noqa
                    raised = True
                after = impl.call(b[1], probe)
                acc.outcomes.add(f"recompile:{kind}:{raised}")
                if not raised or after != before:
                    acc.violation({"kind": "reject:recompile-" + kind, "sub": "accepted", "text": t, "current": currents[cur],
                                   "observed": ["recompile(text) returned normally" if not raised else "raised", f"probe before {before!r} after {after!r}"],
                                   "why": "reference: " + cl[1]})  # fmt: skip
                fresh = impl.build(t)
                if fresh[0] == "ok":
                    acc.violation({"kind": "reject:" + kind, "sub": "accepted", "text": t, "observed": ["ExperimentEvaluator(text) returned an evaluator"], "why": "reference: " + cl[1]})
        elif u[0] == "texts":
            for kind, text in u[1]:
                judge(acc, kind, text)
    return acc.out()


def lrcell_texts():
    """One text per (LR state, token) error cell of the implementation's own table (when it still is
    the vendored SLY parser): shortest viable prefix reaching the state + the token + continuations."""
    try:
        from pyab_experiment.language.grammar import ExperimentParser as P

        table, gram = P._lrtable, P._grammar
        actions, goto = table.lr_action, table.lr_goto
        prods = gram.Productions
    except Exception:  # noqa
        return [], 0
    LEXEME = {"ID": "x", "NON_NEG_INTEGER": "1", "NON_NEG_FLOAT": "2.5", "STRING_LITERAL": '"s"', "LPAREN": "(", "RPAREN": ")",
              "MINUS": "-", "COMMA": ",", "COLON": ":", "LBRACE": "{", "RBRACE": "}", "KW_EQ": "==", "KW_GT": ">", "KW_LT": "<",
              "KW_GE": ">=", "KW_LE": "<=", "KW_NE": "!=", "KW_IN": "in", "KW_NOT": "not", "KW_NOT_IN": "not in", "KW_DEF": "def",
              "KW_SALT": "salt", "KW_SPLITTERS": "splitters", "KW_IF": "if", "KW_ELIF": "else if", "KW_ELSE": "else",
              "KW_WEIGHTED": "weighted", "KW_RETURN": "return", "KW_AND": "and", "KW_OR": "or"}  # fmt: skip
    terms = set(LEXEME)
    # minimal terminal yield of every non-terminal (fixpoint)
    best = {}
    changed = True
    while changed:
        changed = False
        for p in prods[1:]:
            y = []
            ok = True
            for s in p.prod:
                if s in terms:
                    y.append(s)
                elif s in best:
                    y += best[s]
                else:
                    ok = False
                    break
            if ok and (p.name not in best or len(y) < len(best[p.name])):
                best[p.name] = y
                changed = True
    # BFS over the automaton by grammar symbol
    from collections import deque

    path = {0: []}
    dq = deque([0])
    while dq:
        st = dq.popleft()
        nxt = []
        for t, a in actions.get(st, {}).items():
            if a > 0:
                nxt.append((t, a))
        for nt, tgt in goto.get(st, {}).items():
            nxt.append((nt, tgt))
        for sym, tgt in nxt:
            if tgt not in path:
                path[tgt] = path[st] + [sym]
                dq.append(tgt)
    texts, cells = [], 0
    for st, syms in sorted(path.items()):
        toks = []
        for s in syms:
            toks += [s] if s in terms else best.get(s, [])
        prefix = " ".join(LEXEME[t] for t in toks)
        for t in sorted(terms):
            if t not in actions.get(st, {}):
                cells += 1
                for cont in ("", " }", ' def e { return "a" weighted 1 }', ' { return "a" weighted 1 } }'):
                    texts.append((f"lrcell:{st}", (prefix + " " + LEXEME[t] + cont).strip()))
        if "$end" not in actions.get(st, {}):
            texts.append((f"lrcell:{st}", prefix))
    return texts, cells


def units(tier):
    B = eb.all_bases()
    names = eb.SMALL if tier == "quick" else sorted(B)
    out = []
    for nme in names:
        lexs = eb.lexemes(B[nme])
        n = sum(1 for _ in em.mutants(lexs))
        step = 1500
        out += [("mut", nme, lexs, lo, lo + step) for lo in range(0, n, step)]
    if tier == "thorough":
        for nme in ("basic_experiment", "salt", "splitters", "integer_splitting_field"):
            lexs = eb.lexemes(B[nme])
            n = sum(1 for _ in em.apply_all(lexs))
            out += [("mut2", nme, lexs, lo, lo + 8) for lo in range(0, n, 8)]
    defs = [" ".join(eb.lexemes(B[n])) for n in ("basic_experiment", "salt", "splitters", "splitter_test", "unroutable_conditional")]
    defs.append(B["comments"])
    out += [("concat", a, b) for a in defs for b in defs]
    m = 3 if tier == "quick" else 4
    for k in range(1, m + 1):
        out += [("lexseq", c, k) for c in ALPHA]
    out.append(("texts", [("near-miss", t) for t in NEAR]))
    out += [("after", p) for p in POISON]
    out += [("recompile", 'def exp { salt: "s1" splitters: uid, org if f == 1 { return "A1" weighted 1, "A2" weighted 1 } else { return "A3" weighted 1 } }'),
            ("recompile", 'def e { splitters: uid return "a" weighted 1, "b" weighted 1 }')]
    texts, cells = lrcell_texts()
    out += [("texts", texts[i : i + 400]) for i in range(0, len(texts), 400)]
    return out, cells


def run(res, tier):
    us, cells = units(tier)
    for w in pmap(_work, permuted(us, "c06"), chunk=1):
        res.merge_worker(w)
    res.set("lr_error_cells_targeted", cells)
    res.set("states", res.cov.get("programs", 0))
    res.set("transitions", res.cov.get("evaluations", 0))
    res.set("traces_validated_against_impl", res.cov.get("programs", 0))
    res.assumptions += ["a text is 'outside the grammar' only if both readings (keywords with / without word boundary) of the documented token set reject it",
                        "unterminated or nested block comments and non-ASCII characters outside strings are documented ambiguously and skipped"]  # fmt: skip


def replay(data):
    text = data["text"]
    if "current" in data:
        b = impl.build(data["current"])
        try:
            b[1].recompile(text)
            return True, "recompile(text) returned normally"
        except Exception as e:  # noqa
            return False, f"recompile raises {type(e).__name__}"
    if "before" in data:
        impl.build(data["before"])
    cl = rp.classify(text)
    if cl[0] != "reject":
        return False, f"reference no longer rejects: {cl[0]}"
    b, p = impl.build(text), impl.parse(text)
    bad = b[0] == "ok" or p[0] == "ok"
    return bad, f"ExperimentEvaluator -> {b[0]} {b[1] if b[0] == 'exc' else ''}; parse_source -> {p[0]}"
