"""C01 - assignment is a pure, process-independent function of source and inputs.

(a) X-life: explicit-state BFS over new / recompile / call histories on 2-3 evaluator slots with
texts {A, A re-trivia'd, A with other weights, B}; every call result equals the result of a
fresh evaluator AND the reference scheme; after every transition (calls included) the probe
table of every evaluator is unchanged.
(b) X-proc: the same assignment transcript is recomputed from text in child interpreters for
every combination of PYTHONHASHSEED x locale x PYTHONUTF8 x cwd x -O; all must equal the
parent's, which in turn equals the reference scheme."""
from __future__ import annotations

import itertools
import json
import os
import shutil
import subprocess
import sys
import tempfile
from concurrent.futures import ThreadPoolExecutor

from .. import impl, oracle, xlife
from ..common import HarnessFault, NCPU, REPO, VERIF, enc, short
from ..ref import parse as rp
from . import c11

LEVEL = "model_checking"
RULE = ("states = (model state, implementation fingerprint) pairs of the history search + process configurations; "
        "transitions = real constructor / recompile / call executions + child-interpreter transcripts; oracle = fresh "
        "evaluator and reference scheme for every call, byte-identical transcripts across processes")  # fmt: skip

TEXTS = {k: c11.TEXTS[k] for k in ("A", "A_trivia", "A_weights", "B")}
TEXTS["open_comment_after"] = c11.TEXTS["open_comment_after"]
TEXTS["named_map"] = c11.TEXTS["named_map"]
TEXTS["named_str"] = 'def str { if f == 1 { return "S1" weighted 1 } else { return "S2" weighted 1 } }'
TEXTS["A_utf8"] = 'def exp { salt: "é" splitters: org, uid return "U1" weighted 1, "U2" weighted 1, "U3" weighted 1 }'
INPUTS = [
    {"uid": 1, "org": "1", "f": 1, "g": 3},
    {"uid": "1", "org": 1, "f": 1, "g": 3},
    {"uid": "é", "org": None, "f": 0, "g": 0},
    {"uid": True, "org": "1", "f": 1, "g": 3},
    {"uid": 1.0, "org": "1", "f": 1, "g": 3},
    {"uid": 11, "org": "", "f": 1, "g": 9},
]


def spec_for(tier):
    if tier == "quick":
        return xlife.Spec(TEXTS, INPUTS[:5], slots=2, depth=3, reissue=False)
    return xlife.Spec(TEXTS, INPUTS, slots=3, depth=4, reissue=True)


def configs(tier, scratch):
    seeds = ["0", "1", "7", "4294967295"]
    locs = ["C", "C.utf8", "POSIX", "xx_XX.nonexistent"]
    utf8 = ["0", "1"]
    cwds = ["/", scratch]
    opts = [False, True]
    full = list(itertools.product(seeds, locs, utf8, cwds, opts))
    from ..common import library_env_names

    junk = {n: "xproc-junk" for n in library_env_names() if not n.startswith(("XPROC_", "PYAB_REPO"))}
    extras = [("1", "C.utf8", "0", "/", False, e) for e in EXTRA_ENVS + ([junk] if junk else [])]
    if tier == "thorough":
        return full + [full[0]] + extras
    # covering subset: every value of every dimension appears, every seed with >= 2 locales
    pick = [("0", "C", "0", "/", False), ("1", "C.utf8", "1", scratch, True), ("7", "POSIX", "0", scratch, False),
            ("4294967295", "xx_XX.nonexistent", "1", "/", True), ("1", "C", "0", "/", False), ("7", "C.utf8", "1", "/", True),
            ("0", "POSIX", "1", scratch, True), ("4294967295", "C", "0", scratch, False)]  # fmt: skip
    return pick + [pick[0]] + extras


EXTRA_ENVS = [  # further process-environment knobs, each run with hash seed 1 / C.utf8 (quick and thorough)
    {"TZ": "Asia/Tokyo", "HOME": "/nonexistent", "USER": "someone-else", "HOSTNAME": "other-host"},
    {"XPROC_CLOCK_OFFSET": "34560000"},  # the wall clock 400 days later
    {"XPROC_RECURSION": "5000", "XPROC_NOGC": "1"},
    {"PYTHONMALLOC": "malloc", "PYTHONDEVMODE": "1"},
    {"COLUMNS": "20", "TERM": "dumb", "LANGUAGE": "fr:de", "LC_CTYPE": "POSIX"},
    {"XPROC_FAST_CLOCK": "1"},  # every clock reading is one hour after the previous one
    {"XPROC_DECIMAL_PREC": "2", "XPROC_WARN_ERROR": "1"},  # a host application with a coarse decimal context and warnings as errors
    {"PYTHONIOENCODING": "ascii", "LANG": "C", "LC_ALL": "C", "PYTHONCOERCECLOCALE": "0", "PYTHONUTF8": "0"},  # ASCII-only standard streams
    {"PYTHONIOENCODING": "latin-1:strict", "LANG": "POSIX", "LC_ALL": "POSIX", "PYTHONCOERCECLOCALE": "0", "PYTHONUTF8": "0"},
    {"XPROC_RMCWD": "1"},  # the working directory has been removed
    {"XPROC_CWD": "/proc"},  # a working directory in which no file can be created
    {"XPROC_CWD": "/sys", "PYTHONHASHSEED": "3"},
]


def run_child(cfg):
    seed, loc, utf8, cwd, opt = cfg[:5]
    extra = cfg[5] if len(cfg) > 5 else {}
    env = {k: v for k, v in os.environ.items() if not k.startswith(("LC_", "LANG", "PYTHON"))}
    env.update({"PYTHONHASHSEED": seed, "LANG": loc, "LC_ALL": loc, "PYTHONUTF8": utf8, "PYAB_REPO": REPO,
                "PYTHONPATH": VERIF + os.pathsep + os.path.join(REPO, "src"), "PYTHONDONTWRITEBYTECODE": "1"})  # fmt: skip
    env.update(extra)
    cmd = [sys.executable] + (["-O"] if opt else []) + ["-m", "mc.xproc_child"]
    cwd = extra.get("XPROC_CWD", cwd)
    p = subprocess.run(cmd, cwd=cwd, env=env, capture_output=True, text=True, timeout=600)
    if p.returncode != 0:
        return cfg, None, p.stderr[-600:]
    return cfg, json.loads(p.stdout), ""


def xproc(res, tier):
    from .. import xproc_child

    rows = xproc_child.compute()
    # the parent's transcript is itself checked against the reference scheme
    i = 0
    for text, ast in xproc_child.transcript_programs():
        split = ast[3]
        ids = xproc_child.ids()
        for j, u in enumerate(ids):
            env = {s: (u if k == 0 else ids[(j + 7 * k) % len(ids)]) for k, s in enumerate(split)}
            if "seg" in env:
                env["seg"] = "x" if j % 2 else 2
                if ast[2] == "t":
                    env["seg"] = (("x", "why", "zed", "w"), ("x", "w", "why", "zed"), ("w", "x"), ("zed",))[j % 4]
            exp = oracle.expected(ast, env)
            want = repr(("ok", exp[1][1][sorted(exp[2])[0]][0])) if exp[0] == "group" and len(exp[2]) == 1 else None
            if want is not None and rows[i] != want:
                res.violation({"kind": "proc:reference", "text": text, "env": enc(env), "observed": rows[i], "why": f"reference scheme gives {want}"})
            i += 1
    import hashlib

    digest = hashlib.sha256(json.dumps(rows, ensure_ascii=True).encode()).hexdigest()
    scratch = tempfile.mkdtemp(prefix="pyab_cwd_")
    hashes, orders = set(), set()
    try:
        cfgs = configs(tier, scratch)
        with ThreadPoolExecutor(max_workers=NCPU) as ex:
            outs = list(ex.map(run_child, cfgs))
        for cfg, info, err in outs:
            res.add("process_configurations")
            res.add("transitions", len(rows))
            if info is None:
                raise HarnessFault(f"child interpreter {cfg} failed: {err}")
            hashes.add((cfg[0], info["hash_x"]))
            orders.add(tuple(info["set_order"]))
            res.outcomes.add(("proc", info["digest"][:8]))
            if info["digest"] != digest or info["n"] != len(rows):
                # fetch the full transcript of this configuration to name the first differing row
                os.environ["XPROC_FULL"] = "1"
                try:
                    _, full, _ = run_child(cfg)
                finally:
                    os.environ.pop("XPROC_FULL", None)
                d = next((k for k, (a, b) in enumerate(zip(rows, full["rows"] or [])) if a != b), -1)
                res.violation({"kind": "proc:differs", "config": {"PYTHONHASHSEED": cfg[0], "LANG": cfg[1], "PYTHONUTF8": cfg[2], "cwd": "scratch" if cfg[3] != "/" else "/", "-O": cfg[4],
                                                                  "extra": cfg[5] if len(cfg) > 5 else {}},
                               "row": d, "observed": short(repr(full["rows"][d]) if d >= 0 else "length differs"), "why": f"parent process computed {rows[d] if d >= 0 else len(rows)}"})  # fmt: skip
    finally:
        shutil.rmtree(scratch, ignore_errors=True)
    if len({h for _s, h in hashes}) < 2 or len(orders) < 2:
        raise HarnessFault("hash-seed dimension not exercised: hash('x') / set order identical in all children")
    res.set("transcript_rows", len(rows))
    res.set("distinct_str_hashes_seen", len({h for _s, h in hashes}))
    res.set("distinct_set_orders_seen", len(orders))


def run(res, tier):
    spec = spec_for(tier)
    xlife.explore(res, spec)
    # fresh-evaluator table equals the reference scheme (so 'same as fresh' is also 'same as published')
    for k, t in TEXTS.items():
        cl = rp.classify(t)
        if cl[0] != "accept":
            continue  # e.g. the text ending inside a block comment: documented ambiguously, model = fresh constructor only
        ast = cl[1]
        for xi, x in enumerate(spec.inputs):
            why = oracle.agree(("unroutable",) if spec.table[k][xi][0] == "unroutable" else spec.table[k][xi], oracle.expected(ast, x))
            if why:
                res.violation({"kind": "life:reference", "text": t, "env": enc(x), "why": why})
    c11.collision_pairs(res)  # recompile to a near-identical / fingerprint-colliding text must behave like a fresh evaluator of it
    c11.long_histories(res, tier)  # deep cyclic recompile histories: results must stay those of the published scheme
    xproc(res, tier)
    res.set("traces_validated_against_impl", res.cov.get("transitions", 0))
    res.set("bounds", {"slots": spec.slots, "depth": spec.depth, "texts": sorted(TEXTS), "inputs": len(spec.inputs)})
    if res.cov.get("global_state_changed") and not res.cov.get("isolated_mode"):
        res.caps.append("module-level state of pyab_experiment changed during exploration")
    res.assumptions += ["locales not installed in the image (only C, C.utf8, POSIX exist) are represented by one non-existent locale name",
                        "other platforms / Python versions are out of reach"]  # fmt: skip


def replay(data):
    k = data.get("kind", "")
    if k == "life:long":
        return c11.replay_long(data)
    if k == "life:collision":
        return c11.replay_collision(data)
    if k.startswith("life:") and "history" in data:
        spec = spec_for("thorough")
        spec.prepare()
        if data.get("kind") == "life:two-fresh-evaluators":
            ok, tab, note = spec._fresh_one(data["text"])
            return bool(note), note or "two fresh evaluators agree"
        hist = [tuple(h) for h in data["history"]]
        objs, model, outs = spec.run_history(hist[:-1])
        op = hist[-1]
        got = spec.apply(objs, op)
        model1, want = spec.step_model(model, op)
        if (op[0] == "call" and got != want) or (op[0] != "call" and got[0] != want):
            return True, f"{op}: {got} expected {want}"
        bad = spec.invariant(objs, model1)
        return bool(bad), (f"probe mismatch {bad[0]}" if bad else "history behaves like the model")
    if k == "proc:differs":
        c = data["config"]
        scratch = tempfile.mkdtemp(prefix="pyab_cwd_")
        try:
            from .. import xproc_child

            rows = xproc_child.compute()
            os.environ["XPROC_FULL"] = "1"
            _, info, err = run_child((c["PYTHONHASHSEED"], c["LANG"], c["PYTHONUTF8"], "/" if c["cwd"] == "/" else scratch, c["-O"], c.get("extra", {})))
            os.environ.pop("XPROC_FULL", None)
        finally:
            shutil.rmtree(scratch, ignore_errors=True)
        return (info is None or info["rows"] != rows), "child transcript differs from this process's" if info and info["rows"] != rows else "transcripts equal"
    from .. import progcheck

    return progcheck.replay_eval(data)
