"""C16 - the choice function honours its random.choices-style contract.

Exhaustive over ids x populations (list/tuple, mixed values, n in 1..64) x E-weights and their
cumulative forms x every malformed combination; the id-less branch is explored by enumerating
the environment answer of the random source (seam)."""
from __future__ import annotations

import copy
from fractions import Fraction
from itertools import accumulate

from .. import impl, progcheck, seam
from ..common import enc, pmap, permuted, short
from ..enum import weights as ew
from ..ref import sem

LEVEL = "model_checking"
RULE = ("states = (population, weight form, id or random answer) argument tuples; transitions = real calls of the "
        "public choice function; oracle = identity membership, argument snapshots, weights==cum_weights==no-weights "
        "equivalences, exact partition of the published position, documented exception classes")  # fmt: skip

IDS = [f"{i}" for i in range(24)] + ["", "é", "id_123", "a" * 100] + [f"user{i}@example.com" for i in range(12)]
try:  # ids whose real MD5 position lies exactly on / next to the boundaries of small-integer vectors
    import json as _json
    import os as _os

    from ..common import VERIF as _V

    IDS += [e["id"] for e in _json.load(open(_os.path.join(_V, "tools", "witnesses.json")))["ids"]]
except (OSError, ValueError, KeyError):
    pass


class Obj:
    def __repr__(self):
        return "<Obj>"


def population(n, kind):
    base = ["a", 1, 1.5, None, ("t", 1), True, "a", Obj(), 0, "", -1.0, "z"]
    items = [base[i % len(base)] if i < len(base) else f"g{i}" for i in range(n)]
    return tuple(items) if kind == "tuple" else items


def num(x):
    """DSL weight text -> the Python number a caller would pass"""
    return int(x) if "." not in x else float(x)


def _call(fn, *a, **kw):
    try:
        return ("ok", fn(*a, **kw))
    except Exception as e:  # noqa
        return ("exc", type(e).__name__, str(e)[:120])


def _work(units):
    acc = progcheck.Acc()
    fn = impl.binning.deterministic_choice
    rs = seam.RandomSeam()
    hs = seam.HashSeam()
    for v, kind in units:
        n = len(v)
        pop = population(n, kind)
        ws = [num(x) for x in v]
        fws = [Fraction(x) for x in ws]  # exact value of the number actually passed
        cum = list(accumulate(ws))
        snap = (copy.copy(pop), list(ws), list(cum))
        case = {"pop": kind, "n": n, "weights": v}
        for uid in IDS:
            k = sem.hash_k(uid)
            ex = sem.part_exact(fws, k)
            allowed = {ex} if sem.float_exact(fws, k) else sem.part_allowed(fws, k)
            r1 = _call(fn, uid, pop, ws)
            r2 = _call(fn, uid, pop, cum_weights=cum)
            r3 = _call(fn, uid, pop, weights=tuple(ws))
            acc.add("evaluations", 3)
            for tag, r in (("weights", r1), ("cum_weights", r2), ("weights-tuple", r3)):
                if r[0] != "ok" or not any(r[1] is pop[i] for i in allowed):
                    acc.violation({"kind": "choice:" + tag, "case": case, "id": uid, "observed": short(repr(r)),
                                   "why": f"expected element index in {sorted(allowed)} (exact {ex}) returned by identity"})  # fmt: skip
            if r1[0] == "ok" and r2[0] == "ok" and r1[1] is not r2[1]:
                # equivalence of the two forms (cum is the float running sum the function would build itself)
                acc.violation({"kind": "choice:equiv", "case": case, "id": uid, "observed": short(repr((r1, r2))),
                               "why": "weights and their running totals must select the same element"})  # fmt: skip
            acc.outcomes.add(f"{n}:{ex}")
        if list(pop) != list(snap[0]) or ws != snap[1] or cum != snap[2]:
            acc.violation({"kind": "choice:mutated", "case": case, "why": f"arguments were modified by the call (weights {short(repr(ws), 60)}, running totals {short(repr(cum), 60)})"})
            ws, cum = list(snap[1]), list(snap[2])  # (restore, so that the remaining cases are still meaningful)
        # the same through the MD5 seam: positions at / next to every exact boundary, 0 and 2^32-1
        ks = sorted(ew.boundaries(fws) | {0, (1 << 32) - 1})[:40]
        with hs:
            c0 = hs.calls
            for k in ks:
                hs.k = k
                ex = sem.part_exact(fws, k)
                allowed = {ex} if sem.float_exact(fws, k) else sem.part_allowed(fws, k)
                r1 = _call(fn, "x", pop, ws)
                r2 = _call(fn, "x", pop, cum_weights=cum)
                acc.add("evaluations", 2)
                if hs.calls == c0:
                    acc.add("hash_seam_ineffective")
                    break
                for tag, r in (("weights", r1), ("cum_weights", r2)):
                    if r[0] != "ok" or not any(r[1] is pop[i] for i in allowed):
                        acc.violation({"kind": "choice:seam:" + tag, "case": case, "k": k, "observed": short(repr(r)),
                                       "why": f"position k={k}: expected element index in {sorted(allowed)} (exact {ex})"})  # fmt: skip
                if all(x == "1" for x in v):
                    r3 = _call(fn, "x", pop)
                    acc.add("evaluations")
                    if r3[0] != "ok" or r3[1] is not pop[ex]:
                        acc.violation({"kind": "choice:seam:noweights", "case": case, "k": k, "observed": short(repr(r3)),
                                       "why": f"position k={k}: no weights must select element {ex}"})  # fmt: skip
        if (copy.copy(pop), ws, cum) != snap and not any(isinstance(p, Obj) for p in pop):
            acc.violation({"kind": "choice:mutated", "case": case, "why": "arguments were modified"})
        if list(pop) != list(snap[0]) or ws != snap[1] or cum != snap[2]:
            acc.violation({"kind": "choice:mutated", "case": case, "why": "arguments were modified"})
        # no weights == equal integer weights
        if all(x == "1" for x in v):
            for uid in IDS:
                acc.add("evaluations", 2)
                a, b = _call(fn, uid, pop), _call(fn, uid, pop, [1] * n)
                k = sem.hash_k(uid)
                ex = sem.part_exact([Fraction(1)] * n, k)
                if a[0] != "ok" or b[0] != "ok" or a[1] is not b[1] or a[1] is not pop[ex]:
                    acc.violation({"kind": "choice:noweights", "case": case, "id": uid, "observed": short(repr((a, b))),
                                   "why": f"no weights must equal [1]*n: element {ex}"})  # fmt: skip
        ws, cum = list(snap[1]), list(snap[2])  # (whatever a broken implementation did to the lists above: reported there)
        # malformed argument combinations
        bad = [
            ("len+1", dict(weights=ws + [1]), "ValueError"),
            ("len-1", dict(weights=ws[:-1]), "ValueError" if n > 1 else None),
            ("cum len+1", dict(cum_weights=cum + [cum[-1] + 1]), "ValueError"),
            ("all-zero", dict(weights=[0] * n), "ValueError"),
            ("negative total", dict(weights=[-1] * n), "ValueError"),
            ("inf", dict(weights=[float("inf")] + [1] * (n - 1)), "ValueError"),
            ("nan", dict(weights=[float("nan")] + [1] * (n - 1)), "ValueError"),
            ("both", dict(weights=ws, cum_weights=cum), "TypeError"),
            ("no id, cum len+1", dict(input_id=None, cum_weights=cum + [cum[-1] + 1]), "ValueError"),
            ("no id, cum all-zero", dict(input_id=None, cum_weights=[0] * n), "ValueError"),
            ("no id, both", dict(input_id=None, weights=ws, cum_weights=cum), "TypeError"),
            ("no id, len+1", dict(input_id=None, weights=ws + [1]), "ValueError"),
            # "given" means `is not None`, as in random.choices: an empty sequence is still a given argument
            ("both, weights empty list", dict(weights=[], cum_weights=cum), "TypeError"),
            ("both, weights empty tuple", dict(weights=(), cum_weights=cum), "TypeError"),
            ("both, cum empty", dict(weights=ws, cum_weights=[]), "TypeError"),
            ("both empty", dict(weights=[], cum_weights=[]), "TypeError"),
            ("both, weights zero", dict(weights=[0] * n, cum_weights=cum), "TypeError"),
            ("empty weights", dict(weights=[]), "ValueError"),
            ("empty cum", dict(cum_weights=[]), "ValueError"),
            ("overflowing total", dict(weights=[1e308, 1e308] + [1] * (n - 2)), "ValueError" if n >= 2 else None),
            ("cum all-zero", dict(cum_weights=[0] * n), "ValueError"),
            ("cum ends negative", dict(cum_weights=[-1.0] * n), "ValueError"),
            ("cum ends inf", dict(cum_weights=[1.0] * (n - 1) + [float("inf")]), "ValueError"),
        ]
        for tag, kw, want in bad:
            if want is None:
                continue
            acc.add("evaluations")
            r = _call(fn, kw.pop("input_id"), pop, **kw) if "input_id" in kw else _call(fn, "id1", pop, **kw)
            if tag == "nan":
                # random.choices documents no behaviour for NaN; only require: no silent element from a NaN total
                ok = r[0] == "exc"
            else:
                ok = r[0] == "exc" and r[1] == want
            if not ok:
                acc.violation({"kind": "choice:malformed:" + tag, "case": case, "id": "id1", "observed": short(repr(r)),
                               "why": f"expected {want}"})  # fmt: skip
            acc.outcomes.add("bad:" + tag + ":" + (r[1] if r[0] == "exc" else "ok"))
        # random branch: enumerate the environment answer
        T = sum(fws)
        rvals = {0.0, 2.0**-53, 1 - 2.0**-53, 0.5}
        c = Fraction(0)
        for w in fws[:-1]:
            c += w
            x = float(c / T)
            rvals.update({x, x - 2.0**-53, x + 2.0**-53} if 0 < x < 1 else ())
        rvals = sorted(r for r in rvals if 0 <= r < 1)
        with rs:
            for r in rvals:
                rs.r = r
                c0 = rs.calls
                acc.add("evaluations")
                out = _call(fn, None, pop, ws)
                out2 = _call(fn, None, pop, cum_weights=cum)
                if rs.calls != c0 and out2[:2] != out[:2] and not (out[0] == "ok" == out2[0] and out[1] is out2[1]):
                    acc.violation({"kind": "choice:random", "case": case, "r": repr(r), "observed": short(repr((out, out2))),
                                   "why": "without an id, weights and their running totals must draw the same element for the same answer of the random source"})  # fmt: skip
                if rs.calls == c0:
                    acc.add("random_seam_ineffective")
                    ok = out[0] == "ok" and any(out[1] is pop[i] for i in range(n) if fws[i] > 0)
                    why = "a positive-weight element"
                else:
                    eps = Fraction(1, 1 << 50)
                    idx = sem.groups_meeting(fws, (Fraction(r) - eps) * T, (Fraction(r) + eps) * T)
                    ok = out[0] == "ok" and any(out[1] is pop[i] for i in idx)
                    why = f"random answer r={r!r}: element index in {sorted(idx)}"
                if not ok:
                    acc.violation({"kind": "choice:random", "case": case, "r": repr(r), "observed": short(repr(out)), "why": why})
    return acc.out()


# weight vectors outside the partition's domain (negative, cancelling, huge, subnormal): the only thing the
# contract still says about them is that `weights=w` and `cum_weights=accumulate(w)` are THE SAME CALL
ODD = [[1e16, 1.0, -1e16], [-1e16, 1.0, 1e16, 1.0, 1.0], [1e308, 1e308], [0.1] * 10, [5e-324, 5e-324, 1.0], [2**60, 1, -(2**60), 0.5], [1, -1, 1], [3, -1, -1, 2],
       [1e16, 1.0, 1.0, 1.0], [0.1, 0.2, 0.3, -0.6, 1e-17], [float(2**53), 1.0, 1.0], [-1.0, 2.0], [2.0, -1.0], [1e-9] * 64, [1e9, 1e-9] * 8, [0, 0, 0, 1e-300]]


def extreme_vectors():
    """well-formed vectors whose total is positive and finite but tiny or huge (all partial sums in the normal range of a
    double, so the partition is as exact as anywhere else)"""
    from decimal import Decimal

    def d(x):
        t = format(Decimal(x), "f")
        return t if "." in t else t + ".0"

    out = []
    for scale in ("1e-17", "1e-40", "1e-150", "1e-300", "2.5e-307", "1e30", "1e150", "1e300", "2e307"):
        for shape in ((1,), (1, 3), (1, 1, 2), (0, 1, 1), (3, 0, 1, 4)):
            out.append([d(Decimal(scale) * k) if k else "0" for k in shape])
    out.append([d("1e-300")] * 64)
    out.append([d("1e-17"), d("3e-17")])
    out.append([d("1e300")] * 64)
    return out


def _odd_work(units):
    acc = progcheck.Acc()
    fn = impl.binning.deterministic_choice
    for w in units:
        pop = [f"g{i}" for i in range(len(w))]
        cum = list(accumulate(w))
        for uid in IDS:
            a, b = _call(fn, uid, pop, list(w)), _call(fn, uid, pop, cum_weights=list(cum))
            acc.add("evaluations", 2)
            acc.outcomes.add("odd:" + a[0])
            if a[:2] != b[:2]:
                acc.violation({"kind": "choice:odd-equiv", "case": {"pop": "list", "n": len(w), "weights": [repr(x) for x in w]}, "id": uid,
                               "observed": short(repr((a, b))), "why": "weights=w and cum_weights=list(accumulate(w)) must be the same call (same element or same error)"})  # fmt: skip
                break
    return acc.out()


# weights that are Python numbers of other kinds: ints beyond 2^53 (not exactly a float), Fractions, bools.  random.choices
# takes them all; the total of such a vector need not be exactly representable as a float
def exotic_vectors():
    from fractions import Fraction as Fr

    return [[2**53 + 1], [10**16, 10**16 + 1], [3, 0, 10**17, 0], [Fr(1, 3)], [Fr(1, 10)] * 3, [Fr(1, 3), Fr(2, 3)], [True, True, False], [2**70, 2**70], [10**30, 1], [1, 10**30],
            [Fr(10**20, 3), 1], [2**53 + 1, 2**53 + 3, 5], [Fr(1, 3), 0, Fr(1, 7)], [10**22 + 1] * 5, [True], [1, True, 2.5], [Fr(7, 3)] * 64]


def _exotic_work(units):
    from fractions import Fraction as Fr

    acc = progcheck.Acc()
    fn = impl.binning.deterministic_choice
    vs = exotic_vectors()
    for j in units:
        ws = vs[j]
        n = len(ws)
        pop = [f"g{i}" for i in range(n)]
        fws = [Fr(w) for w in ws]
        cum = list(accumulate(ws))
        case = {"pop": "list", "n": n, "weights": [repr(w) for w in ws], "exotic": j}
        for uid in IDS:
            k = sem.hash_k(uid)
            allowed = sem.part_allowed(fws, k) | {sem.part_exact(fws, k)}
            for tag, r in (("weights", _call(fn, uid, pop, list(ws))), ("cum_weights", _call(fn, uid, pop, cum_weights=list(cum)))):
                acc.add("evaluations")
                if r[0] != "ok" or not any(r[1] is pop[i] for i in allowed if fws[i] > 0):
                    acc.violation({"kind": "choice:exotic:" + tag, "case": case, "id": uid, "observed": short(repr(r)),
                                   "why": f"weights of type {sorted({type(w).__name__ for w in ws})}: expected element index in {sorted(allowed)}"})  # fmt: skip
                    break
            acc.outcomes.add(f"exotic:{j}")
        acc.add("evaluations")
        r = _call(fn, None, pop, list(ws))
        if r[0] != "ok" or not any(r[1] is pop[i] for i in range(n) if fws[i] > 0):
            acc.violation({"kind": "choice:exotic:random", "case": case, "observed": short(repr(r)), "why": "the id-less draw must return a positive-weight element"})
    return acc.out()


def _flag_work(units):
    """(in a child interpreter with -O) the argument validation must not live in asserts"""
    out = _work([(v, kind) for v, kind in units])
    out["outcomes"] = [str(o) for o in out["outcomes"]]
    return out


def run(res, tier):
    from ..common import run_in_flagged_child

    for w in pmap(_odd_work, ODD, chunk=4):
        res.merge_worker(w)
    for w in pmap(_exotic_work, list(range(len(exotic_vectors()))), chunk=3):
        res.merge_worker(w)
    r = run_in_flagged_child("mc.checks.c16", "_flag_work", [[["1"], "list"], [["1", "2"], "list"], [["0", "1", "0.5"], "tuple"], [["1"] * 8, "list"]], ("-OO",))
    for v in r["viol"]:
        v["interpreter_flags"] = ["-OO"]
    r["outcomes"] = ["-OO:" + o for o in r["outcomes"]]
    res.merge_worker(r)
    from ..common import hostile_runs

    hostile_runs(res, "mc.checks.c16", "_flag_work", [[["1"], "list"], [["1", "2"], "list"], [["0", "1", "0.5"], "tuple"], [["1"] * 8, "list"], [["3.4", "0.1", "7"], "list"]])
    vs = list(ew.small_vectors(3 if tier == "quick" else 5)) + ew.families() + ew.families_large() + [["1"] * n for n in range(1, 65)] + extreme_vectors()
    units = [(v, kind) for v in vs for kind in (("list", "tuple") if len(v) <= 3 or len(v) in (8, 64) else ("list",))]
    for w in pmap(_work, permuted(units, "c16"), chunk=16):
        res.merge_worker(w)
    if res.cov.get("random_seam_ineffective"):
        res.caps.append("random seam ineffective: the id-less branch no longer draws through random.random(); only zero-weight exclusion was checked there")
    res.set("states", len(units) * len(IDS))
    res.set("transitions", res.cov.get("evaluations", 0))
    res.set("traces_validated_against_impl", res.cov.get("evaluations", 0))
    res.set("bounds", {"vectors": len(vs), "ids": len(IDS)})


def replay(data):
    if data.get("host_environment"):
        from ..common import replay_in_host

        return replay_in_host(data, "mc.checks.c16", "_flag_work", [[data["case"]["weights"], data["case"]["pop"]]])
    fn = impl.binning.deterministic_choice
    case = data["case"]
    if data.get("kind") == "choice:odd-equiv":
        r = _odd_work([[float(x) if ("." in x or "e" in x or "inf" in x) else int(x) for x in case["weights"]]])
        return bool(r["viol"]), (r["viol"][0]["observed"] if r["viol"] else "equivalent")
    if "exotic" in case:
        r = _exotic_work([case["exotic"]])
        return bool(r["viol"]), (r["viol"][0]["why"] + " / observed " + str(r["viol"][0].get("observed")) if r["viol"] else "no longer fails")
    acc = progcheck.Acc(viol_cap=10000)
    global IDS
    out = _work([(case["weights"], case["pop"])])
    bad = [v for v in out["viol"] if v["kind"] == data["kind"]]
    return bool(bad), (bad[0].get("why", "") + " / observed " + str(bad[0].get("observed")) if bad else "no longer fails")
