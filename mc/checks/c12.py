"""C12 - the published bucketing scheme is pinned.

Exhaustive over salts x splitter-name sets in every declaration order x field values x four
weight vectors, plus known answers of the hash-position function.  Oracle: R-hash / R-part
(mc/ref/sem.py), written from the property text alone."""
from __future__ import annotations

from itertools import permutations, product

from .. import impl, progcheck
from ..common import pmap, permuted
from ..enum import vals
from ..ref import parse as rp
from ..ref import sem

LEVEL = "model_checking"
RULE = ("states = distinct (salt, declaration order, weight vector) programs compiled by the real pipeline; "
        "transitions = evaluations, each compared with md5/UTF-8/sorted-names/first-32-bits recomputed "
        "independently and located in the exact (Fraction) partition; plus known answers of the position function")  # fmt: skip

SALTS = [None, "", "s", "exp-1", "é", "日本", "🎲", "e\u0301", "\u212b\u2126", "\u1100\u1161", "q\u0323\u0307", "S" * 140, "l’été", "“beta”", "„Neu“", "‹x›", "kid's", "pricing-$$", "save%%", "a{{b}}", "fr&quot;x", "exp\\new", "a\\", "\\t", 'say "hi"', "%s", "{0}"]
# further salts, each with a few declaration orders only: invisible / format characters, doubled template escapes, character references
SALTS_EXTRA = ["007", "2024", " 42 ", "-5", "+1", "1_000", "１２", "1e3", "0x10", "1.0", "00", "L" * 64 + "a", "L" * 65, "Q" * 1000, "tab\there", "a\\x62c", "eu\\north", "50%", "%d", "tier%%gold",
               "\ufeffa", "a\ufeffb", "a\u200b", "\u00adx", "x\u2060y", "\u200ea\u200f", "a\u061cb", "\ufff9a\ufffb", "a\u2028b", "\u00a0", "a\u3000"]
NAMES = ["a", "ab", "b", "ba"]
# Mixed-case / underscore / digit names.  "Alphabetical order" is taken as code-point order of the
# field names (what sorted() gives and what every release so far has published): any other order for
# these names silently reassigns running experiments, which is exactly what the property forbids.
# a name listed twice counts once (what every release so far does; the scheme says "the splitter values taken in
# alphabetical order of field name", i.e. one value per name)
DUPLICATES = [("a", "a"), ("b", "a", "b"), ("a", "b", "a", "b"), ("ab", "a", "ab")]
NAMES2 = [("Region", "account_id"), ("userId", "user_country"), ("B", "_c", "a"), ("ID", "id_type"), ("f10", "f9", "f_1"), ("Z", "a", "_"), ("variant", "key")]


def weight_vectors():
    return {
        "eq64": [(f"g{i}", "1") for i in range(64)],
        "123": [("x", "1"), ("y", "2"), ("z", "3")],
        "19": [("x", "1"), ("y", "9")],
        "ramp63": [(f"g{i}", str(i + 1)) for i in range(63)],
    }


def _values_for(n, tier):
    if n == 1:
        return [(v,) for v in vals.ALL] + ([(vals.LONG,)] if tier == "thorough" else [])
    pool = vals.SMALL if n == 2 else vals.SMALL[:5]
    return list(product(pool, repeat=n))


def _work(units):
    acc = progcheck.Acc()
    wv = weight_vectors()
    for salt, order, wname, tier in units:
        order = tuple(order) if isinstance(order, list) else order
        if order == "RECOMPILE":
            # ONE evaluator recompiled from salt to near-identical salt: the scheme must follow the salt last given
            from .. import impl, oracle
            from ..common import enc, quiet

            chain = ["checkout v2", "checkout  v2", "checkout\tv2", "checkoutv2", "Checkout v2", "checkout v2 ", "checkout v2", "p\x0cq", "p\x0c q", "http://a/x", "http://a/y", "é", "e\u0301"]
            ev = None
            for salt in chain:
                ast = ("prog", "e", salt, ("uid",), ("ret", tuple(wv[wname])))
                text = rp.render(ast)
                if rp.classify(text) != ("accept", ast):
                    continue
                try:
                    if ev is None:
                        ev = impl.ExperimentEvaluator(text)
                    else:
                        with quiet():
                            ev.recompile(text)
                except Exception as e:  # noqa
                    acc.violation({"kind": "scheme:recompile", "sub": "build", "text": text, "observed": f"{type(e).__name__}: {e}"})
                    continue
                acc.add("programs")
                for u in range(24):
                    acc.add("evaluations")
                    why = oracle.agree(impl.call(ev, {"uid": u}), oracle.expected(ast, {"uid": u}))
                    if why:
                        acc.violation({"kind": "scheme:recompile", "sub": "eval", "text": text, "env": enc({"uid": u}), "chain": chain[: chain.index(salt) + 1] if salt in chain else chain,
                                       "why": "after recompiling through near-identical salts the position is not md5(salt + values) of the salt last given: " + why})  # fmt: skip
                        break
            continue
        if order == "LIVE":
            # several evaluators of the SAME experiment name alive at once, each with its own salt / splitters / weights: each
            # keeps following its own definition (a per-name table shared by all evaluators would hand the first the last one's)
            from .. import impl, oracle
            from ..common import enc

            defs = [("prog", "e", s_, sp, ("ret", tuple(wv[wname]))) for s_, sp in (("s1", ("a",)), ("s2", ("a",)), (None, ("b", "a")), ("s1", ("a", "b")), ("", ("a",)))]
            evs = []
            for a in defs:
                b = impl.build(rp.render(a))
                acc.add("programs")
                if b[0] == "ok":
                    evs.append((a, b[1]))
                for a2, ev2 in evs:  # every evaluator built so far, probed again after each construction
                    for u in range(12):
                        env = {"a": u, "b": u + 100}
                        acc.add("evaluations")
                        why = oracle.agree(impl.call(ev2, env), oracle.expected(a2, env))
                        if why:
                            acc.violation({"kind": "scheme:live", "sub": "eval", "text": rp.render(a2), "env": enc(env),
                                           "why": f"with {len(evs)} evaluators of the same experiment name alive, this one no longer follows its own definition: " + why})  # fmt: skip
                            break
            continue
        if order == "COLLIDE":
            # unit ids whose hash KEYS collide under crc32 (and have equal length), evaluated one after the other
            from ..enum import collide

            for pre, a, b in collide.crc32_id_pairs():
                ast = ("prog", "e", pre or None, ("uid",), ("ret", tuple(wv[wname])))
                progcheck.check_prog(acc, ast, [{"uid": a}, {"uid": b}, {"uid": a}, {"uid": b}], f"scheme:collide:{wname}")
            continue
        ast = ("prog", "e", salt, tuple(order), ("ret", tuple(wv[wname])))
        envs = [dict(zip(order, vs)) for vs in _values_for(len(order), tier)]
        progcheck.check_prog(acc, ast, envs, f"scheme:{wname}", want_sample=(wname == "123" and len(order) == 2))
    return acc.out()


DEEP_SALTS = [None, "é", "S" * 70]


def _deep(units):
    """complete value families (mc/deepvals.py) located on a 64-group ruler (4096 groups for the short-string family),
    as the only splitter and as the later-sorting / earlier-sorting one of two; and the position function itself on them"""
    from .. import deepvals
    from ..enum import collide

    acc = progcheck.Acc()
    fn = getattr(impl.binning, "deterministic_proba", None)
    for salt, fam, chunk, mode in units:
        if fam == "pairs":
            # every ordered pair of a mid-size alphabet (near-twins included) as the values of two splitters
            M = list(dict.fromkeys(collide.near_twin_values()[:40] + vals.SMALL + ["", "0", 0, 0.0, "00", "a", "b", "ab", "é", None, "None", True, "True", 1, "1", 1.0, "1.0", 10, "10", "1", "0"]))
            for first, second in (("a", "b"), ("b", "a"), ("B", "a"), ("_b", "a"), ("a1", "a")):
                for w in M:
                    deepvals.check_family(acc, f"deep:pairs:{first},{second}", salt, (first, second), 256, M, {second: w})
            continue
        values = deepvals.family(fam, chunk)
        ng = 4096 if fam == "str3" else 64  # (the cost of one evaluation grows with the number of groups)
        if mode == "single":
            deepvals.check_family(acc, f"deep:{fam}:single", salt, ("uid",), ng, values)
        elif mode == "first":
            deepvals.check_family(acc, f"deep:{fam}:first", salt, ("a", "z"), ng, values, {"z": "Z9"})
        elif mode == "last":
            deepvals.check_family(acc, f"deep:{fam}:last", salt, ("z", "a"), ng, values, {"a": "é0"})
        elif mode == "proba" and fn is not None:
            pre = salt or ""
            for v in values:
                acc.add("evaluations")
                key = pre + str(v)
                try:
                    got = fn(key)
                except Exception as e:  # noqa
                    got = f"{type(e).__name__}: {e}"
                want = sem.hash_k(key) / 2**32
                if got != want:
                    from ..common import short

                    acc.violation({"kind": "proba", "text": short(key, 200) if len(key) < 200 else key, "observed": repr(got), "why": f"expected {want!r}"})
                    break
    return acc.out()


def run(res, tier):
    orders = [p for k in (1, 2, 3) for p in permutations(NAMES, k)] + [p for ns in NAMES2 for p in permutations(ns)] + DUPLICATES
    units = [(s, o, w, tier) for s in SALTS_EXTRA for o in (("a",), ("b", "a"), ("Region", "account_id")) for w in ("eq64", "123")] + \
        [(s, o, w, tier) for s in SALTS for o in orders for w in weight_vectors()] + [(None, "COLLIDE", w, tier) for w in weight_vectors()] + [(None, "RECOMPILE", "eq64", tier), (None, "RECOMPILE", "123", tier), (None, "LIVE", "eq64", tier), (None, "LIVE", "123", tier)]
    for w in pmap(_work, permuted(units, "c12"), chunk=8):
        res.merge_worker(w)
    from .. import deepvals

    # quick: every family under the default salt as the only splitter + the position function; thorough: x 3 salts x 4 modes + pairs
    deep = [(s_, f, c, m) for s_ in DEEP_SALTS for (f, c) in deepvals.units() for m in ("single", "first", "last", "proba")
            if tier == "thorough" or (s_ is None and m in ("single", "proba"))]  # fmt: skip
    deep += [(s_, "pairs", 0, "pairs") for s_ in (DEEP_SALTS if tier == "thorough" else [None])]
    for w in pmap(_deep, permuted(deep, "c12deep"), chunk=1):
        res.merge_worker(w)
    res.set("deep_families", {f: deepvals.CHUNKS[f] for f in deepvals.FAMILIES})
    from ..common import HOSTILE_FIPS, hostile_runs

    hostile_runs(res, "mc.checks.c12", "_work", [[s_, list(o), "eq64", "quick"] for s_ in (None, "s", "é") for o in (("a",), ("b", "a"))] + [[None, "COLLIDE", "123", "quick"]],
                 extra_configs=[HOSTILE_FIPS])
    # known answers of the position function (named in the anchors; skipped if it is renamed)
    fn = getattr(impl.binning, "deterministic_proba", None)
    n = 0
    if fn is not None:
        strings = ["", "a", "abc", "message digest", "id_123", "é", "日本"] + [f"{i}{s}" for i in range(2000) for s in ("", "_salt", "x", "@e.com", "é")]
        for s in strings:
            n += 1
            try:
                got = fn(s)
            except Exception as e:  # noqa
                got = f"{type(e).__name__}: {e}"
            want = sem.hash_k(s) / 2**32
            if got != want:
                res.violation({"kind": "proba", "text": s, "observed": repr(got), "why": f"expected {want!r}"})
    res.set("position_known_answers", n)
    res.set("states", res.cov.get("programs", 0))
    res.set("transitions", res.cov.get("evaluations", 0) + n)
    res.set("traces_validated_against_impl", res.cov.get("evaluations", 0) + n)
    res.set("bounds", {"salts": len(SALTS), "declaration_orders": len(orders), "weight_vectors": 4})
    res.assumptions += ["alphabetical order is decided on lower-case ASCII names only (case / underscore order is not specified)"]


def replay(data):
    if data.get("host_environment"):
        from ..common import replay_in_host
        from ..ref import parse as rp

        a = rp.classify(data["text"])[1]
        wname = {64: "eq64", 3: "123", 2: "19", 63: "ramp63"}[len(a[4][1])]
        return replay_in_host(data, "mc.checks.c12", "_work", [[a[2], list(a[3]), wname, "quick"]])
    if data.get("kind") == "scheme:live":
        r = _work([(None, "LIVE", "eq64", "quick"), (None, "LIVE", "123", "quick")])
        return bool(r["viol"]), (r["viol"][0].get("why", "") if r["viol"] else "every live evaluator follows its own definition")
    if data.get("kind") == "scheme:recompile":
        r = _work([(None, "RECOMPILE", "eq64", "quick"), (None, "RECOMPILE", "123", "quick")])
        return bool(r["viol"]), (r["viol"][0].get("why", "recompile raised") if r["viol"] else "the evaluator follows the salt last given")
    if data.get("kind") == "proba":
        fn = getattr(impl.binning, "deterministic_proba", None)
        try:
            got = fn(data["text"])
        except Exception as e:  # noqa
            got = f"{type(e).__name__}: {e}"
        want = sem.hash_k(data["text"]) / 2**32
        return (got != want), f"got {got!r}, expected {want!r}"
    return progcheck.replay_eval(data)
