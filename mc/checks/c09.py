"""C09 - assignment depends only on salt, splitter values and the routed branch.

Metamorphic pairs, each enumerated exhaustively over the base programs x unit ids:
extra keyword arguments (every undeclared pool name x every E-val value), experiment renamed,
every permutation of the splitter declaration, every permutation of the call's keyword order,
every pair of condition-field assignments routed to the same return statement, each declared
field omitted; conversely the id->group map is not constant and differs between salts."""
from __future__ import annotations

from itertools import permutations, product

from .. import impl, progcheck
from ..common import enc, pmap, permuted, short
from ..enum import idents as ei
from ..enum import shapes as esh
from ..enum import vals
from ..ref import parse as rp
from ..ref import sem

LEVEL = "model_checking"
RULE = ("states = (program, unit id, transformation) pairs; transitions = evaluations of the real evaluators; "
        "oracle = equality of the two results of each related pair (no hand-written expectation), an exception for "
        "an omitted declared field, and non-constancy across ids / salts")  # fmt: skip

from ..enum import collide as _collide  # noqa: E402

# pairs of ids whose hash keys ('' / 'salt1' / 's' / 'k' + id) collide under crc32 and have equal length, adjacent in the list
IDS = list(range(40)) + [f"u{i}@x.org" for i in range(16)] + ["", "é", 1.5, None, True, "1", 1, -1] + \
    [x for _pre, a, b in _collide.crc32_id_pairs(prefixes=("", "salt1", "s", "k"), n=3) for x in (a, b)] + \
    vals.OBJECTS + _collide.near_twin_values()  # tuple / list / dict / bytes / Fraction ... ids (their str() is the key); distinct ids that a tidying step (strip, case fold, NFC/NFKC, int()) would identify
MULTI = (("A", "1"), ("B", "2"), ("C", "3"))


def base_programs():
    """(tag, ast) - every return is multi-group so that the hash position matters"""
    def multi(c):
        if c is None:
            return None
        if c[0] == "ret":
            j = c[1][0][0]
            return ("ret", ((j + "a", "1"), (j + "b", "2"), (j + "c", "1")))
        if c[0] == "else":
            return ("else", multi(c[1]))
        return (c[0], c[1], multi(c[2]), multi(c[3]))

    yield "plain1", ("prog", "exp", None, ("uid",), ("ret", MULTI))
    yield "plain1s", ("prog", "exp", "salt1", ("uid",), ("ret", MULTI))
    yield "plain2", ("prog", "exp", "s", ("uid", "org_id"), ("ret", MULTI))
    yield "plain3", ("prog", "exp", None, ("b", "a", "c"), ("ret", MULTI))
    yield "plain4", ("prog", "exp", "x", ("d", "b", "a", "c"), ("ret", MULTI))
    # names that differ only by case / by an underscore / by a digit (ties in a careless ordering)
    yield "case2", ("prog", "exp", "x", ("uid", "UID"), ("ret", MULTI))
    yield "case3", ("prog", "exp", None, ("Session", "session", "SESSION"), ("ret", MULTI))
    yield "mixed3", ("prog", "exp", "y", ("b", "B", "_b"), ("ret", MULTI))
    yield "digit3", ("prog", "exp", None, ("f10", "f9", "f1"), ("ret", MULTI))
    yield "sharedcond", ("prog", "exp", "s", ("uid", "f"), ("if", ("cmp", ("id", "f"), "in", ("tup", (("lit", 1), ("lit", 2), ("lit", 3)))), ("ret", MULTI), ("else", ("ret", (("Z", "1"), ("Y", "1"))))))
    # identifiers inside tuple literals are condition fields like any other (not splitters)
    yield "tuple-ident", ("prog", "exp", "s", ("uid",), ("if", ("cmp", ("id", "country"), "in", ("tup", (("id", "home"), ("lit", "US")))), ("ret", MULTI), ("else", ("ret", (("Z", "1"), ("Y", "1"))))))
    yield "tuple-ident2", ("prog", "exp", None, ("uid", "f"), ("if", ("cmp", ("tup", (("id", "f"), ("id", "g"))), "==", ("tup", (("lit", 1), ("id", "h")))), ("ret", MULTI), ("elif", ("cmp", ("id", "g"), "not in", ("tup", (("tup", (("id", "h"), ("lit", 2))), ("lit", 3)))), ("ret", MULTI), None)))
    # a splitter whose NAME is part of a condition field's name (and is a builtin's name)
    yield "substr", ("prog", "exp", "s", ("id", "user"), ("if", ("cmp", ("id", "paid"), "==", ("lit", 1)), ("ret", MULTI), ("elif", ("cmp", ("id", "user_tier"), "in", ("tup", (("lit", 1), ("lit", 0)))), ("ret", MULTI), None)))
    yield "substr2", ("prog", "exp", None, ("a", "len"), ("if", ("cmp", ("id", "aa"), "==", ("lit", 1)), ("ret", MULTI), ("else", ("if", ("cmp", ("id", "length"), "!=", ("lit", 5)), ("ret", MULTI), None))))
    for P in (1, 2, 3):
        for j, sk in enumerate(esh._C(P)):
            yield f"shape{P}.{j}", ("prog", "exp", "k", ("uid",), multi(esh._number(sk, {"p": 0, "r": 0})))


def results(ev, envs):
    return [impl.call(ev, e) for e in envs]


def cmp_eq(acc, tag, text, text2, envs, r1, r2, what):
    for e, a, b in zip(envs, r1, r2):
        acc.add("evaluations", 2)
        if a != b or a[0] == "exc":
            acc.violation({"kind": "dep:" + tag, "sub": "eval", "text": text, "text2": text2, "env": enc(e),
                           "observed": short(repr((a, b))), "why": what})  # fmt: skip
            return False
    return True


_IDS_T = []


def ids_for(tier):
    """thorough: plus every string of length <= 3 over the hostile alphabet of mc/deepvals.py and every int in [-300, 300]"""
    if tier != "thorough":
        return IDS
    if not _IDS_T:
        from .. import deepvals

        _IDS_T.extend(IDS + [x for x in deepvals.family("str3", 0) if x not in IDS] + [i for i in range(-300, 301) if i not in IDS])
    return _IDS_T


def check_base(acc, tag, ast, tier):
    IDS = ids_for(tier)  # noqa: N806
    _, name, salt, split, c = ast
    text = rp.render(ast)
    b = impl.build(text)
    acc.add("programs")
    if b[0] != "ok":
        acc.violation({"kind": "dep:build", "sub": "build", "text": text, "observed": list(b)})
        return
    ev = b[1]
    cids = [n for n in rp.cond_ids(c)]
    free = [n for n in cids if n not in split]
    # inputs: every id in the first splitter, fixed others; condition fields: every truth assignment
    asgs = list(product((1, 0), repeat=len(free))) or [()]
    envs = []
    for u in IDS:
        for asg in asgs[:8]:
            e = {s: (u if k == 0 else f"o{k}") for k, s in enumerate(split)}
            e.update(dict(zip(free, asg)))
            envs.append(e)
    base = results(ev, envs)
    # the group is a function of salt, splitter values and routed branch ONLY (not of what was evaluated before):
    # compare with the reference scheme, then once more in reverse order
    from .. import oracle

    for order in (envs, envs[::-1]):
        for e in order:
            try:
                exp = oracle.expected(ast, e)
            except TypeError:
                continue
            acc.add("evaluations")
            why = oracle.agree(impl.call(ev, e), exp)
            if why:
                acc.violation({"kind": "dep:history", "sub": "eval", "text": text, "env": enc(e), "why": "result is not the function of salt / splitter values / branch that the scheme defines: " + why})
                break
    groups = {r[1] for r in base if r[0] == "ok"}
    acc.outcomes.update(str(g) for g in groups)
    # (1) extra keyword arguments
    near = [f(n) for n in list(split) + cids for f in (lambda x: x + "s", lambda x: x.upper(), lambda x: x.replace("_", ""), lambda x: x + "_", lambda x: x[:-1] or "x", lambda x: "_" + x)]
    extras = [n for n in dict.fromkeys(ei.POOL1[:12] + ["extra", "uid2", "salt", "weights", "population", "input_id", "self"] + near)
              if n.isidentifier() and n not in split and n not in cids and n != name]
    vs = vals.ALL if tier == "thorough" else vals.SMALL + [vals.STRS[8], 10**100, float("nan")]
    sub = envs[:: max(1, len(envs) // 12)]
    want = results(ev, sub)
    for n in extras:
        for v in vs:
            got = results(ev, [dict(e, **{n: v}) for e in sub])
            acc.add("evaluations", len(sub))
            if got != want:
                acc.violation({"kind": "dep:extra-kwarg", "sub": "eval", "text": text, "env": enc(dict(sub[0], **{n: v})), "observed": short(repr(got[:3])),
                               "why": f"an undeclared keyword argument {n}={v!r} changed the result (without it: {short(repr(want[:3]))})"})  # fmt: skip
                break
    # (1b) the same program written on ONE line with a block comment between all tokens, and on one token per line
    for sep in (" /* c */ ", "\n", " /* a */ /* b */ "):
        t2 = rp.render(ast, sep=sep)
        if rp.classify(t2) == ("accept", ast):
            b2 = impl.build(t2)
            acc.add("programs")
            if b2[0] == "ok":
                cmp_eq(acc, "layout", text, t2, envs, base, results(b2[1], envs), "the layout of the source (comments / line breaks between the tokens) changed an assignment")
            else:
                acc.violation({"kind": "dep:layout", "sub": "build", "text": text, "text2": t2, "observed": list(b2), "why": "the program no longer compiles when it is written with comments between its tokens"})
    # (2) experiment renamed
    # (names the generated code itself uses work as experiment names on the pinned tree; Python reserved words do not -
    # that is known finding KF1 of C07 and they are not used here)
    for nn in ("other_name", "e", "index", "str", "map", "partial", "deterministic_choice", "choose_experiment_variant", "kwargs",
               "ExperimentConditionalFailedError", "self", "uid_", "Exp", "exp" * 40):
        if nn in split or nn in cids:
            continue
        a2 = ("prog", nn, salt, split, c)
        b2 = impl.build(rp.render(a2))
        acc.add("programs")
        if b2[0] == "ok":
            cmp_eq(acc, "rename", text, rp.render(a2), envs, base, results(b2[1], envs), "renaming the experiment changed an assignment")
        else:
            acc.violation({"kind": "dep:rename", "sub": "build", "text": text, "text2": rp.render(a2), "observed": list(b2),
                           "why": f"the experiment no longer compiles when it is merely renamed to {nn!r}"})  # fmt: skip
    # (3) every permutation of the splitter declaration (<= 4 splitters)
    for perm in permutations(split):
        if perm != tuple(split):
            a2 = ("prog", name, salt, perm, c)
            b2 = impl.build(rp.render(a2))
            acc.add("programs")
            if b2[0] == "ok":
                cmp_eq(acc, "decl-order", text, rp.render(a2), envs, base, results(b2[1], envs), "declaration order of the splitters changed an assignment")
    # (4) every permutation of the call's keyword order
    e0 = envs[len(envs) // 2]
    r0 = impl.call(ev, e0)
    for perm in list(permutations(list(e0)))[:120]:
        acc.add("evaluations")
        r = impl.call(ev, {k: e0[k] for k in perm})
        if r != r0:
            acc.violation({"kind": "dep:kwarg-order", "sub": "eval", "text": text, "env": enc({k: e0[k] for k in perm}), "observed": short(repr((r0, r))), "why": "keyword order of the call changed the result"})
            break
    # (5) condition-field values do not matter as long as the same return statement is selected
    if free:
        vals5 = (1, 0, 2, "x", None)
        for u in IDS[:24]:
            seen = {}
            for asg in product(vals5, repeat=len(free)) if len(free) <= 2 else product((1, 0, 2), repeat=len(free)):
                e = {s: (u if k == 0 else f"o{k}") for k, s in enumerate(split)}
                e.update(dict(zip(free, asg)))
                try:
                    r = sem.route(c, e)
                except TypeError:
                    continue
                acc.add("evaluations")
                out = impl.call(ev, e)
                key = id(r) if r != sem.UNROUTABLE else "U"
                if key in seen and seen[key][0] != out:
                    acc.violation({"kind": "dep:cond-values", "sub": "eval", "text": text, "env": enc(e), "env2": enc(seen[key][1]),
                                   "observed": short(repr((out, seen[key][0]))), "why": "two inputs routed to the same return statement, same splitter values, got different groups"})  # fmt: skip
                    break
                seen.setdefault(key, (out, e))
    # (6) each declared field omitted -> an error, not a group
    for f in list(split) + free:
        e = dict(envs[0])
        e.pop(f)
        acc.add("evaluations")
        r = impl.call(ev, e)
        # a condition field that the routing never reads before a decision may legitimately be absent only if
        # the language says so - it does not: every declared field is required
        if r[0] == "ok":
            acc.violation({"kind": "dep:omitted", "sub": "eval", "text": text, "env": enc(e), "observed": short(repr(r)), "why": f"declared field {f!r} omitted, yet a group was returned"})
    # (7) conversely: varies across ids and across salts
    if len({r[1] for r in base if r[0] == "ok"}) < 2:
        acc.violation({"kind": "dep:constant", "sub": "eval", "text": text, "observed": short(repr(groups)), "why": f"the same group for all {len(IDS)} unit ids"})
    a2 = ("prog", name, (salt or "") + "_2", split, c)
    b2 = impl.build(rp.render(a2))
    if b2[0] == "ok":
        acc.add("evaluations", len(envs))
        if results(b2[1], envs) == base:
            acc.violation({"kind": "dep:salt-ignored", "sub": "eval", "text": text, "text2": rp.render(a2), "why": "changing the salt changed no assignment"})
    if len(acc.samples) < 1:
        acc.samples.append({"text": short(text, 200), "ids": len(IDS), "transformations": ["extra-kwarg", "rename", "decl-order", "kwarg-order", "cond-values", "omitted", "salt"]})


TWIN_SALTS = [("p\x0cq", "p\x0c q"), ("p\rq", "p\r q"), ("p\u2028q", "p\x85q"), ("http://a/x", "http://a/y"), ("x//a", "x//b"), ("S", "s"), ("s ", "s"), ("é", "e\u0301"), ("a  b", "a b"), ("pricing'", "pricing"), ("'p'", "p"), ('"p"', "p"), ("'", ""), ("home page", "homepage"),
              ("L" * 64 + "a", "L" * 64 + "b"), ("L" * 63 + "a", "L" * 63 + "b"), ("M" * 100 + "x", "M" * 100 + "y"), ("N" * 255 + "1", "N" * 255 + "2"), ("P" * 32 + "a", "P" * 32 + "b")] + \
    [(a, b) for a, b in _collide.near_twin_pairs() if "\n" not in a + b and "\x00" not in a + b]


def _work(units):
    acc = progcheck.Acc()
    for tag, ast, tier in units:
        if tag == "twin-salts":
            # programs that differ only in near-identical salts, compiled one after the other in ONE process: each must
            # follow ITS salt (a parse cache keyed by a normalised source would hand the second the first one's tree)
            from .. import oracle

            for a, b in TWIN_SALTS:
                for salt in (a, b, a):
                    p_ast = ("prog", "exp", salt, ("uid",), ("ret", MULTI))
                    text = rp.render(p_ast)
                    if rp.classify(text) != ("accept", p_ast):
                        continue
                    bb = impl.build(text)
                    acc.add("programs")
                    if bb[0] != "ok":
                        acc.violation({"kind": "dep:twin-salt", "sub": "build", "text": text, "observed": list(bb)})
                        continue
                    for u in IDS[:48]:
                        acc.add("evaluations")
                        why = oracle.agree(impl.call(bb[1], {"uid": u}), oracle.expected(p_ast, {"uid": u}))
                        if why:
                            acc.violation({"kind": "dep:twin-salt", "sub": "eval", "text": text, "env": enc({"uid": u}), "before": [a, b],
                                           "why": "the group does not follow this program's own salt: " + why})  # fmt: skip
                            break
            continue
        check_base(acc, tag, ast, tier)
    return acc.out()


def _hostile_work(tags):
    bases = dict(base_programs())
    return _work([(t, bases[t], "quick") for t in tags if t in bases] + [("twin-salts", None, "quick")])


def run(res, tier):
    units = [(tag, ast, tier) for tag, ast in base_programs()] + [("twin-salts", None, tier)]
    for w in pmap(_work, permuted(units, "c09"), chunk=1):
        res.merge_worker(w)
    from ..common import hostile_runs

    hostile_runs(res, "mc.checks.c09", "_hostile_work", ["plain1s", "plain2", "sharedcond", "shape2.3"])
    res.set("states", res.cov.get("programs", 0))
    res.set("transitions", res.cov.get("evaluations", 0))
    res.set("traces_validated_against_impl", res.cov.get("evaluations", 0))
    res.set("bounds", {"bases": len(units), "ids": len(IDS)})


def replay(data):
    from ..common import dec

    if data.get("host_environment"):
        from ..common import replay_in_host

        return replay_in_host(data, "mc.checks.c09", "_hostile_work", ["plain1s", "plain2", "sharedcond", "shape2.3"])
    if data.get("kind") == "dep:twin-salt":
        r = _work([("twin-salts", None, "quick")])
        return bool(r["viol"]), (r["viol"][0].get("why", "build failure") if r["viol"] else "each program follows its own salt")

    cl = rp.classify(data["text"])
    if cl[0] != "accept":
        return False, "reference no longer accepts"
    acc = progcheck.Acc(viol_cap=1000)
    check_base(acc, "replay", cl[1], "quick")
    bad = [v for v in acc.viol if v["kind"] == data["kind"]]
    return bool(bad), (bad[0]["why"] if bad else "no longer fails")
