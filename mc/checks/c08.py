"""C08 - comments and whitespace never change meaning.

E-trivia: for every base program, every gap between adjacent tokens (and before the first /
after the last) x every trivia item, glued and spaced (thorough: ordered pairs of items, two
gaps at once), plus whitespace reshaping inside `else if` / `not in`.  E-lexseq: every sequence
of <= n comment/quote/newline lexemes and every string of <= m characters drives the real
two-state lexer and the reference tokenizer side by side.
Oracle: AST of the variant == AST of the base (pydantic equality), same evaluator outcomes on
probe inputs, real token stream == reference token stream."""
from __future__ import annotations

import random
from itertools import product

from .. import impl, progcheck
from ..common import enc, pmap, permuted, short
from ..enum import bases as eb
from ..ref import lex as rl
from ..ref import parse as rp

LEVEL = "model_checking"
RULE = ("states = distinct trivia variants / lexeme strings; transitions = real parses + evaluator probes + real "
        "tokenisations; every variant's AST must equal the base's and every lexically valid string's real token "
        "stream must equal the reference stream (both readings agreeing)")  # fmt: skip

LONG_TRIVIA = ["// " + "x" * 1030 + "\n", "// " + " " * 5000 + "salt: 'old'\n", "/* " + "y" * 70000 + " */", " " * 3000, "\n" * 600, "// " + "z" * 70000 + "\n",
               "/* " + "line\n" * 3000 + "*/", "\t" * 2000]
TRIVIA = ["// C:\\Users\\new\\x\n", '/* """ */', "// \\N{x} \\x \\u12\n", "/* \\ */", "// def x {\n", "/* def */", "/* def e { return 1 weighted 1 } */", "// undef def redefine\n", "// def demo { return 1 weighted 1 } /*\n", "/* a *\ufeff/ b */", "/* \ufeff */", "// \ufeff x\n", "/* *\u200b/ x */", "/* *\u00ad/ x */", "// c\r x\n", "// c\x0b x\n", "// c\x0c x\n", "// c\x1c x\n", "// c\x85 x\n", "// c\u2028 x\n", "// c\u2029, \"b\" weighted 1\n", "/* c\r x */",
          " ", "\t", "\n", "\r\n", "  \n  ", "\f", "\v", "\r", "// c", "/* */ //", "// c\n", "//\n", "// ' \"\n", "// /* \n", "// */ x\n", "/* c */", "/**/", "/***/",
          "/* * / */", "/* ' */", '/* " */', "/* // */", "/* if return */", "/* a */ /* b */", "/* a */\n/* b */", "/* m\nl */",
          "/* é */", "// é\n", "/*\n*/", "/* x **/", "/* a */ // b\n", "/* } */", "/* \"s\" weighted 1, */"]  # fmt: skip


AFTER_TRIVIA = [" ", "\n", "/* c */", "// c\n", "/* a */ /* b */", "/* m\nl */", "/**/"]
POISON = ['def e { return "a" weighted 1 } /* never closed', 'def e { /* never closed return "a" weighted 1 }', "/*", "/* only a comment */", 'def e { return "a" weighted 1 } // open line',
          'def e { return "a" weighted 1 @ }', 'def e { return "a" weighted }', "", 'def e { salt: "unterminated }', "def e { /* a */ /* b", 'def e { return "a" weighted 1 } /* x */ /*']


def probes(ast):
    _, _n, _s, split, c = ast
    fields = list(dict.fromkeys(list(split or ()) + rp.cond_ids(c)))
    envs = []
    for val in ("a", 1, 0, "b", 5, ("a", "b", "c")):
        envs.append({f: val for f in fields})
    for j, f in enumerate(fields[:4]):
        envs.append({g: ("a" if g == f else "b") for g in fields})
        envs.append({g: (j if g == f else 7) for g in fields})
    return envs


def outcomes(ev, envs):
    out = []
    for e in envs:
        random.seed(12345)
        r = impl.call(ev, e)
        out.append(r[:2] if r[0] == "exc" else r)
    return out


def variants_single(lexs, items, gaps=None):
    n = len(lexs)
    for g in (range(n + 1) if gaps is None else sorted({x for x in gaps(n) if 0 <= x <= n})):
        left, right = " ".join(lexs[:g]), " ".join(lexs[g:])
        for it in items:
            yield (g, it, "glued"), left + it + right
            yield (g, it, "spaced"), left + " " + it + " " + right


def variants_kw(lexs):
    """whitespace-only reshaping inside `else if` and `not in`"""
    for i, l in enumerate(lexs):
        if l.split() == ["else", "if"] or l.split() == ["not", "in"]:
            a, b = l.split()
            seps = [" ", "  ", "\t", "\n", " \n\t "] + ([""] if a == "else" else [])
            for sp in seps:
                yield (i, repr(sp), "kw"), " ".join(lexs[:i] + [a + sp + b] + lexs[i + 1 :])


def check_variants(acc, name, base_text, gen):
    cl = rp.classify(base_text)
    assert cl[0] == "accept"
    ast = cl[1]
    bp = impl.parse(base_text)
    bb = impl.build(base_text)
    if bp[0] != "ok" or bb[0] != "ok":
        acc.violation({"kind": "trivia:base", "sub": "build", "text": base_text, "base": name, "observed": [list(bp[:2]) if bp[0] != "ok" else "ok", list(bb[:2]) if bb[0] != "ok" else "ok"]})
        return
    envs = probes(ast)
    want = outcomes(bb[1], envs)
    for key, text in gen:
        acc.add("programs")
        c2 = rp.classify(text)
        if c2[0] != "accept" or c2[1] != ast:
            acc.add("ambiguous_skipped")
            continue
        p = impl.parse(text)
        acc.add("evaluations")
        if p[0] != "ok" or p[1] != bp[1]:
            acc.outcomes.add("diff:" + p[0])
            acc.violation({"kind": f"trivia:{key[2]}", "sub": "ast", "text": text, "base": name, "trivia": key[1], "gap": key[0],
                           "observed": short(repr(p[1:]), 200), "why": "AST differs from the base program's AST"})  # fmt: skip
            continue
        acc.outcomes.add("same-ast")
        if key[0] == 0:
            # the other entry point: module text generated from the variant must exist and be executable too
            g = impl.gen(text, False)
            acc.add("evaluations")
            err = None
            if g[0] != "ok":
                err = list(g)
            else:
                try:
                    exec(compile(g[1], "<generated>", "exec"), {})
                except Exception as e:  # noqa
                    err = f"{type(e).__name__}: {e}"
            if err is not None:
                acc.violation({"kind": f"trivia:{key[2]}", "sub": "module", "text": text, "base": name, "trivia": key[1], "gap": key[0], "observed": short(repr(err), 200),
                               "why": "generate_code fails / yields invalid Python for this variant although it does for the base program"})  # fmt: skip
        if key[0] % 7 == 0:
            b = impl.build(text)
            acc.add("evaluations", len(envs))
            got = outcomes(b[1], envs) if b[0] == "ok" else [b[:2]]
            if got != want:
                acc.violation({"kind": f"trivia:{key[2]}", "sub": "eval", "text": text, "base": name, "trivia": key[1], "gap": key[0],
                               "observed": short(repr(got), 200), "why": "evaluator outcomes differ from the base program's"})  # fmt: skip
        if len(acc.samples) < 1 and "/*" in key[1]:
            acc.samples.append({"base": name, "gap": key[0], "trivia": key[1], "text": short(text, 200)})


LEXSEQ = ["/*", "*/", "//", "\n", " ", "x", '"', "'", "*", "/", "1"]
CHARS = list("ax1 \n\"'/*-.=><!(){},:;@\\#") + ["if", "in"]


def lex_compare(acc, s):
    acc.add("programs")
    try:
        tw = rl.canon(rl.tokenize(s, "W"))
        td = rl.canon(rl.tokenize(s, "D"))
    except rl.RefAmbiguous:
        acc.add("ambiguous_skipped")
        return
    except rl.RefLexError:
        acc.add("lexically_invalid")
        return
    if tw != td:
        acc.add("ambiguous_skipped")
        return
    acc.add("evaluations")
    r = impl.tokens(s)
    if r[0] == "ok":
        got = []
        for t, v in r[1]:
            got.append((t, v if t in ("ID", "STRING_LITERAL", "NON_NEG_INTEGER", "NON_NEG_FLOAT") else None))
        want = [(rl.IMPL_TYPE[t], v) for t, v in tw]
        if got == want and not r[2]:
            acc.outcomes.add(len(got))
            return
        obs = {"tokens": short(repr(got), 200), "printed": short(r[2], 80)}
    else:
        obs = list(r)
    acc.violation({"kind": "lexseq", "sub": "tokens", "text": s, "observed": obs, "why": f"reference token stream {short(repr(tw), 200)}"})


def _work(units):
    acc = progcheck.Acc()
    B = eb.all_bases()
    for u in units:
        if u[0] == "single":
            _, name, items = u
            lexs = eb.lexemes(B[name])
            check_variants(acc, name, " ".join(lexs), variants_single(lexs, items))
        elif u[0] == "long":
            # very long trivia: a handful of gaps (start, after `def`, before / inside the return list, end)
            _, name, items = u
            lexs = eb.lexemes(B[name])
            check_variants(acc, name, " ".join(lexs), variants_single(lexs, items, gaps=lambda n: (0, 1, 3, n // 2, n - 4, n - 1, n)))
        elif u[0] == "orig":
            _, name = u
            # the base as written (with its own comments / layout) equals its lexeme-joined form
            lexs = eb.lexemes(B[name])
            check_variants(acc, name, " ".join(lexs), [((0, "original layout", "orig"), B[name])] + list(variants_kw(lexs)))
        elif u[0] == "pair":
            _, name, it1 = u
            lexs = eb.lexemes(B[name])
            check_variants(acc, name, " ".join(lexs), variants_single(lexs, [it1 + it2 for it2 in TRIVIA] + [it1 + " " + it2 for it2 in TRIVIA]))
        elif u[0] == "twogaps":
            _, name, it1 = u
            lexs = eb.lexemes(B[name])
            n = len(lexs)

            def gen():
                for g1 in range(n + 1):
                    for g2 in range(g1 + 1, min(n + 1, g1 + 6)):
                        for it2 in ("/* b */", "// b\n", "/**/"):
                            yield (g1, it1 + "|" + it2, "twogaps"), " ".join(lexs[:g1]) + it1 + " ".join(lexs[g1:g2]) + it2 + " ".join(lexs[g2:])

            check_variants(acc, name, " ".join(lexs), gen())
        elif u[0] == "after":
            # trivia must stay meaningless whatever text was compiled before in this process (a lexer object or
            # comment state kept between compilations)
            _, name, poison = u
            lexs = eb.lexemes(B[name])
            n0 = len(acc.viol)

            def gen_after():
                for key, text in variants_single(lexs, AFTER_TRIVIA, gaps=lambda n: (0, 2, n // 2, n - 1, n)):
                    impl.build(poison)
                    yield (key[0], key[1], "after"), text

            impl.build(poison)
            check_variants(acc, name, " ".join(lexs), gen_after())
            for v in acc.viol[n0:]:
                v["before"] = poison
        elif u[0] == "onto":
            # a pure white-space variant given to an evaluator that currently holds a LAYOUT TWIN of it (the same text but for the
            # number of blanks inside a string literal): the variant must take effect - white space between tokens is
            # meaningless, white space inside a literal is data
            _, name = u
            lexs = eb.lexemes(B[name])
            base_text = " ".join(lexs)
            lit = next((x for x in lexs if x[:1] in "\"'" and " " in x), None)
            bb = impl.build(base_text)
            if lit is None or bb[0] != "ok":
                continue
            twin = base_text.replace(lit, lit.replace(" ", "  ", 1), 1)
            cl = rp.classify(base_text)
            envs = probes(cl[1])
            want = outcomes(bb[1], envs)
            for key, text in variants_single(lexs, [" ", "\n", "\t", "  \n  ", "\r\n"]):
                if rp.classify(text) != cl:
                    continue
                acc.add("programs")
                tw = impl.build(twin)
                if tw[0] != "ok" or outcomes(tw[1], envs) == want:
                    break  # (the twin is not distinguishable on the probes: nothing to see)
                try:
                    from ..common import quiet

                    with quiet():
                        tw[1].recompile(text)
                    got = outcomes(tw[1], envs)
                except Exception as e:  # noqa
                    got = [("exc", type(e).__name__)]
                acc.add("evaluations", len(envs))
                if got != want:
                    acc.violation({"kind": "trivia:onto", "sub": "eval", "text": text, "base": name, "trivia": key[1], "gap": key[0], "before": twin,
                                   "observed": short(repr(got), 200), "why": "recompiled onto an evaluator holding the same text with another number of blanks INSIDE a string literal, the variant does not behave like the base program"})  # fmt: skip
                    break
        elif u[0] == "lexseq":
            _, first, n = u
            for rest in product(LEXSEQ, repeat=n - 1):
                lex_compare(acc, "".join((first,) + rest))
        elif u[0] == "chars":
            _, first, m = u
            for rest in product(CHARS, repeat=m - 1):
                lex_compare(acc, first + "".join(rest))
    return acc.out()


def units(tier):
    B = eb.all_bases()
    names = eb.SMALL if tier == "quick" else sorted(B)
    out = [("orig", n) for n in sorted(B)]
    for nme in names:
        out += [("single", nme, TRIVIA[i : i + 6]) for i in range(0, len(TRIVIA), 6)]
    for nme in ("salt", "splitter_test", "readme_cond") if tier == "quick" else names:
        out += [("long", nme, [it]) for it in LONG_TRIVIA]
    if tier == "thorough":
        for nme in names:
            out += [("pair", nme, it) for it in TRIVIA]
            out += [("twogaps", nme, it) for it in ("/* a */", "// a\n", "/* m\nl */", "\n")]
    else:
        for nme in ("salt", "splitter_test"):
            out += [("pair", nme, it) for it in (TRIVIA if nme == "salt" else TRIVIA[::4])]
            out += [("twogaps", nme, it) for it in ("/* a */", "// a\n")]
    for nme in ("salt", "comments") if tier == "quick" else names:
        out += [("after", nme, p) for p in POISON]
    out += [("onto", nme) for nme in (("basic_experiment", "salt", "splitters") if tier == "quick" else names)]
    n, m = (5, 3) if tier == "quick" else (6, 4)
    for k in range(1, n + 1):
        out += [("lexseq", f, k) for f in LEXSEQ]
    for k in range(1, m + 1):
        out += [("chars", c, k) for c in CHARS]
    return out


def _hostile_work(names):
    us = []
    for n in names:
        us += [("orig", n), ("single", n, TRIVIA[:12]), ("single", n, ["/* c */", "/* a */ /* b */", "/* m\nl */", "// c\n", "/**/", "\r\n"])]
    out = _work(us)
    out["outcomes"] = [str(o) for o in out["outcomes"]]
    return out


def run(res, tier):
    for w in pmap(_work, permuted(units(tier), "c08"), chunk=1):
        res.merge_worker(w)
    from ..common import hostile_runs

    hostile_runs(res, "mc.checks.c08", "_hostile_work", ["salt", "comments"])
    res.set("states", res.cov.get("programs", 0))
    res.set("transitions", res.cov.get("evaluations", 0))
    res.set("traces_validated_against_impl", res.cov.get("evaluations", 0))
    res.set("bounds", {"trivia_items": len(TRIVIA), "lexseq_alphabet": LEXSEQ, "char_classes": len(CHARS)})
    res.assumptions += ["nested block comments, unterminated comments and comments inside `else if` / `not in` are outside the property (documentation contradictory) and not enumerated"]


def replay(data):
    if data.get("host_environment"):
        from ..common import replay_in_host

        return replay_in_host(data, "mc.checks.c08", "_hostile_work", [data.get("base", "salt")])
    if data.get("kind") == "lexseq":
        acc = progcheck.Acc()
        lex_compare(acc, data["text"])
        return bool(acc.viol), (acc.viol[0]["why"] + " vs " + str(acc.viol[0]["observed"]) if acc.viol else "token streams agree")
    B = eb.all_bases()
    if data.get("kind") == "trivia:onto":
        r = _work([("onto", data["base"])])
        return bool(r["viol"]), (r["viol"][0]["why"] if r["viol"] else "variant takes effect")
    lexs = eb.lexemes(B[data["base"]])
    acc = progcheck.Acc()
    key = (0 if data.get("sub") == "eval" else 1, data.get("trivia", ""), "replay")

    def gen():
        if "before" in data:
            impl.build(data["before"])
        yield key, data["text"]

    if "before" in data:
        impl.build(data["before"])
    check_variants(acc, data["base"], " ".join(lexs), gen())
    return bool(acc.viol), (acc.viol[0].get("why") or f"the base program itself fails: {acc.viol[0].get('observed')}" if acc.viol else "variant agrees with base")
