"""C07 - every grammatical experiment compiles and evaluates.

Exhaustive placement of an identifier pool in every identifier position (singles, all ordered
pairs; triples in the thorough tier), every splitter/condition sharing pattern of three
fields, identifiers and tuples inside tuples to depth 3, one program per size (chains to 60,
nesting to 12, 64 groups) and every token-level mutant of the base programs that the reference
grammar still accepts.  Oracle: reference accepts => construction succeeds and every evaluation
ends with the reference's group or the unroutable error."""
from __future__ import annotations

from .. import findings, impl, progcheck
from ..common import pmap, permuted
from ..enum import bases as eb
from ..enum import idents as ei
from ..enum import mut as em
from ..enum import shapes as esh
from ..ref import parse as rp

LEVEL = "model_checking"
RULE = ("states = distinct grammatical programs (reference recogniser accepts) compiled by the real pipeline; "
        "transitions = evaluations on type-compatible inputs, each compared with the reference interpreter; a "
        "construction failure or an internal SyntaxError/NameError/TypeError is a violation")  # fmt: skip

NEUTRAL = "zz9"
POISON = ['def e { return "a" weighted 1 } /* never closed', 'def e { /* never closed return "a" weighted 1 }', 'def e { return "a" weighted 1 @ }',
          'def e { return "a" weighted }', "", 'def class { return 1 weighted 1 }', "/* only a comment */", 'def e { salt: "unterminated }']


def rename(ast, envs, mapping, name_mapping=None):
    """rename field identifiers (AST and inputs); the experiment name only through name_mapping"""
    name_mapping = mapping if name_mapping is None else name_mapping
    def r(x):
        if isinstance(x, tuple):
            if len(x) == 2 and x[0] == "id":
                return ("id", mapping.get(x[1], x[1]))
            return tuple(r(i) for i in x)
        return x

    _, name, salt, split, c = ast
    ast2 = ("prog", name_mapping.get(name, name), salt, tuple(mapping.get(s, s) for s in split) if split else None, r(c))
    envs2 = [{mapping.get(k, k): v for k, v in e.items()} for e in envs]
    return ast2, envs2


def idents_of(ast):
    _, name, _salt, split, c = ast
    return {name} | set(split or ()) | set(rp.cond_ids(c))


def run_case(acc, tag, ast, envs, reserved):
    text = rp.render(ast)
    cl = rp.classify(text)
    if cl[0] != "accept" or cl[1] != ast:
        acc.add("ambiguous_skipped")
        return
    hit = sorted(idents_of(ast) & set(reserved))
    # a known finding covers an identifier only in the roles it lists (e.g. helper names fail as FIELDS, not as
    # the experiment name): any other use is checked like every other program
    _, pname, _s, psplit, pcond = ast
    cids = set(rp.cond_ids(pcond))
    covered = {}  # identifier -> roles in which a known finding covers it here
    for h in hit:
        used = {r for r, yes in (("name", pname == h), ("splitter", h in (psplit or ())), ("condition", h in cids)) if yes}
        covered[h] = used & set(reserved[h][1])
    hit = [h for h in hit if covered[h]]
    if not hit:
        progcheck.check_prog(acc, ast, envs, "gram:" + tag, text=text, want_sample=tag.startswith("shared:order_id"))
        return
    # program uses identifiers listed in a known finding: differential attribution
    probe = progcheck.Acc(viol_cap=1000)
    progcheck.check_prog(probe, ast, envs, "gram:" + tag, text=text)
    for k, v in probe.cov.items():
        if not k.startswith("viol"):
            acc.add(k, v)
    if not probe.viol:
        acc.add("reserved_identifier_programs_passing")
        return
    # neutralise each listed identifier ONLY in the roles its finding covers (a helper name stays the experiment's name)
    mapping = {h: f"{NEUTRAL}_{j}" for j, h in enumerate(hit) if covered[h] & {"splitter", "condition"}}
    name_mapping = {h: f"{NEUTRAL}_n{j}" for j, h in enumerate(hit) if "name" in covered[h]}
    ast2, envs2 = rename(ast, envs, mapping, name_mapping)
    probe2 = progcheck.Acc(viol_cap=1000)
    progcheck.check_prog(probe2, ast2, envs2, "gram:" + tag)
    if probe2.viol:
        for v in probe.viol:  # still fails once the listed identifiers are neutralised: a new violation
            acc.violation(v)
    else:
        for h in hit:
            key = f"{reserved[h][0]} identifier={h}"
            acc.known[key] = acc.known.get(key, 0) + 1


def _work(units):
    acc = progcheck.Acc()
    reserved = findings.reserved_identifiers("C07")
    for u in units:
        if u[0] == "case":
            _, tag, ast, envs = u
            run_case(acc, tag, ast, envs, reserved)
        elif u[0] == "shape":
            _, P, lo, hi = u
            names = [f"p{k}" for k in range(P)]
            sk = esh._C(P)
            for j in range(lo, hi):
                ast = esh.prog_of(esh._number(sk[j], {"p": 0, "r": 0}))
                progcheck.check_prog(acc, ast, [dict(e, u="id7") for e in esh.assignments(names)], "gram:shape")
        elif u[0] == "ws":
            # the same sentences written with every ASCII white-space character (and line-end convention) between the tokens
            _, sep = u
            for tag, ast, envs in list(ei.sharing())[:8] + list(ei.nested_tuples())[:3] + list(ei.singles(["_u", "_", "__x__", "x1", "Zed"])):
                if idents_of(ast) & set(reserved):
                    continue
                text = rp.render(ast, sep=sep)
                if rp.classify(text) != ("accept", ast):
                    acc.add("ambiguous_skipped")
                    continue
                progcheck.check_prog(acc, ast, envs[:6], "gram:ws:" + repr(sep), text=sep + text + sep)
            # the two-word tokens `not in` and `else if` with this white space between their words
            two = ("prog", "exp", None, ("uid",), ("if", ("cmp", ("id", "f"), "not in", ("tup", (("lit", 1), ("lit", 2)))), ("ret", (("A", "1"),)),
                                                   ("elif", ("cmp", ("lit", 3), "not in", ("id", "g")), ("ret", (("B", "1"),)), ("elif", ("cmp", ("id", "f"), "in", ("id", "g")), ("ret", (("C", "1"),)), None))))
            t2 = rp.render(two).replace("not in", "not" + sep + "in").replace("else if", "else" + sep + "if")
            if rp.classify(t2) == ("accept", two):
                progcheck.check_prog(acc, two, [{"uid": 1, "f": f, "g": g} for f in (1, 3) for g in ((1, 2), (3,), ())], "gram:ws2:" + repr(sep), text=t2)
        elif u[0] == "after":
            # a grammatical text must compile whatever was compiled before it in this process
            _, poison = u
            impl.build(poison)
            n0 = len(acc.viol)
            for tag, ast, envs in list(ei.sharing())[:6] + list(ei.nested_tuples())[:2]:
                impl.build(poison)
                run_case(acc, "after:" + tag, ast, envs, reserved)
            for v in acc.viol[n0:]:
                v["before"] = poison
            for name in ("basic_experiment", "salt", "comments", "full_grammar", "readme_complete"):
                text = eb.all_bases()[name]
                acc.add("programs")
                impl.build(poison)
                b = impl.build(text)
                acc.outcomes.add("after:" + b[0])
                if b[0] != "ok":
                    acc.violation({"kind": "gram:after", "sub": "build", "text": text, "before": poison, "observed": list(b),
                                   "why": "a grammatical text failed to compile after another text had been compiled in the same process"})  # fmt: skip
        elif u[0] == "mut":
            _, name, lexs, lo, hi = u
            seen = set()
            for j, (kind, text) in enumerate(em.mutants(lexs)):
                if lo <= j < hi and text not in seen:
                    seen.add(text)
                    cl = rp.classify(text)
                    if cl[0] == "accept":
                        if idents_of(cl[1]) & set(reserved):
                            acc.add("ambiguous_skipped")
                            continue
                        acc.add("programs")
                        b = impl.build(text)
                        acc.outcomes.add("mut:" + b[0])
                        if b[0] != "ok":
                            acc.violation({"kind": "gram:mutant:" + kind, "sub": "build", "text": text, "observed": list(b)})
    return acc.out()


def units(tier):
    out = []
    gens = [ei.singles(ei.POOL1 + ei.POOL2), ei.pairs(ei.POOL1 if tier == "thorough" else ei.POOL1[:20]), ei.sharing(), ei.sharing(("fld", "uid", "e")),
            ei.nested_tuples(), ei.big()]  # fmt: skip
    if tier == "thorough":
        gens.append(ei.triples(ei.POOL1[:26]))
        gens.append(ei.pairs(ei.POOL2[:8] + ["a"]))
    for g in gens:
        out += [("case", tag, ast, envs) for tag, ast, envs in g]
    for P in range(0, 4 if tier == "quick" else 6):
        n = esh.count_shapes(P)
        out += [("shape", P, lo, min(n, lo + 16)) for lo in range(0, n, 16)]
    out += [("after", p) for p in POISON]
    # every operator x operand kind with NO else branch: the false outcome is the unroutable error whatever the field holds
    from ..enum import ops as eops

    for tag, pred, envs in eops.op_cases():
        if ":lit" in tag and "lit" in tag.split(":", 1)[1].replace("lit", "", 1):
            continue
        a = esh.prog_of(("if", pred, ("ret", (("T", "1"),)), None))
        out.append(("case", "noelse:" + tag.split(":")[0], a, [dict(e, u="id7") for e in envs]))
    # every named literal content in salt / label / operand / tuple member position, and inside a trailing line comment
    from ..enum import lits

    for v in lits.NAMED:
        if "\n" in v or ('"' in v and "'" in v) or any(0xD800 <= ord(c) <= 0xDFFF for c in v):
            continue
        a = ("prog", "exp", v, ("uid",), ("if", ("cmp", ("id", "f"), "in", ("tup", (("lit", v), ("lit", 1)))), ("ret", ((v, "1"), ("B", "1"))), ("else", ("ret", (("Z", "1"),)))))
        out.append(("case", "literal", a, [{"uid": i, "f": f} for i in range(2) for f in (v, 1, v + "x")]))
    for gs in ((("A", "0"), ("B", "1")), (("A", "1"), ("B", "0.0"), ("C", "2")), (("A", "0"), ("B", "0"), ("C", "0.5"))):
        a = ("prog", "exp", None, ("uid",), ("if", ("cmp", ("id", "f"), "==", ("lit", 1)), ("ret", gs), ("else", ("ret", gs[::-1]))))
        out.append(("case", "zero-weight", a, [{"uid": i, "f": f} for i in range(6) for f in (1, 0)]))
        out.append(("case", "zero-weight", ("prog", "exp", "s", None, ("ret", gs)), [{} for _ in range(3)]))
    out += [("ws", sep) for sep in ("\t", "\n", "\r\n", "\r", "\x0c", "\x0b", " \t ", "\n\n", " \r\n\t", "\x0c\n", " \x0b ", "\r\r\n", "  ")]
    B = eb.all_bases()
    for nme in (eb.SMALL if tier == "quick" else sorted(B)):
        lexs = eb.lexemes(B[nme])
        n = sum(1 for _ in em.mutants(lexs))
        out += [("mut", nme, lexs, lo, lo + 3000) for lo in range(0, n, 3000)]
    return out


def _hostile_work(names):
    """(in child interpreters imitating unusual hosts: -bb, -X dev, DEBUG logging, few descriptors, -O/-OO, ...) a slice of the
    enumeration: identifier singles for the given names, the sharing patterns, the size family's small members, white space"""
    us = [("case", tag, a, e) for tag, a, e in ei.singles(list(names))] + [("case", tag, a, e) for tag, a, e in list(ei.sharing())[:6] + list(ei.nested_tuples())[:3]]
    us += [("case", tag, a, e) for tag, a, e in ei.big() if tag.startswith(("lazy", "chain:3", "nest:3", "groups:5", "boolmix:or-under-and:10"))]
    us += [("ws", "\r\n"), ("after", POISON[0])]
    out = _work(us)
    out["outcomes"] = [str(o) for o in out["outcomes"]]
    return out


def run(res, tier):
    for w in pmap(_work, permuted(units(tier), "c07"), chunk=6):
        res.merge_worker(w)
    from ..common import hostile_runs

    hostile_runs(res, "mc.checks.c07", "_hostile_work", ["order_id", "_u", "index"])
    res.set("states", res.cov.get("programs", 0))
    res.set("transitions", res.cov.get("evaluations", 0) + res.cov.get("programs", 0))
    res.set("traces_validated_against_impl", res.cov.get("evaluations", 0) + res.cov.get("programs", 0))
    res.set("bounds", {"pool": len(ei.POOL1), "reserved_pool": len(ei.POOL2), "chain": 60, "nesting": 12, "groups": 64})
    res.assumptions += ["identifiers listed in known_findings.json (Python reserved words, helper names) are attributed differentially: the renamed program must pass"]


def replay(data):
    if data.get("host_environment"):
        from ..common import replay_in_host

        return replay_in_host(data, "mc.checks.c07", "_hostile_work", ["order_id", "_u", "index"])
    if "before" in data:
        impl.build(data["before"])
        bad, msg = progcheck.replay_eval(data)
        return bad, f"after compiling {data['before']!r}: {msg}"
    return progcheck.replay_eval(data)
