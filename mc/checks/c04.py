"""C04 - realistic id populations split in proportion, independently across salts.

Exhaustive sweep of the configuration grid id-family x offset x salt x weight vector through
compiled experiments (the DSL `salt:` clause is executed).  Nothing is random: populations are
deterministic enumerations.  Statistical oracle: chi-square goodness of fit per configuration and
chi-square independence per pair of distinct salts, both at significance 1e-9.  (A lower "too regular" bound
was tried and withdrawn: chi-square is discrete, an exact 50/50 split of 20 000 ids has probability
0.6% and is no evidence against a hash - see DESIGN.md.)"""
from __future__ import annotations

from .. import chi2, impl, progcheck
from ..common import pmap, permuted, short
from ..enum import vals
from ..ref import parse as rp

LEVEL = "exploration"
RULE = ("evaluations = assignments computed by compiled experiments over deterministic id populations; one case = "
        "one (family, offset, salt, weights) configuration (goodness of fit) or one (family, offset, weights, salt pair) "
        "(independence); distinct_nontrivial = number of distinct configurations tested whose population hit >= 2 groups")  # fmt: skip

ALPHA = 1e-9
FAMILIES = vals.FAMILIES + ["two-field", "three-field", "long-key", "cond-on-splitter"]
OFFSETS = [0, 10**6, 10**9, 2**31]
SALTS = [None, "", "a", "b", "exp_2024", "Checkout-Button", "checkout-button", " checkout-button"]
VECTORS = {"11": ["1", "1"], "123": ["1", "2", "3"], "19": ["1", "9"], "hh": ["0.5", "0.5"], "ten": ["1"] * 10,
           "eight125": ["12.5"] * 8, "six1666": ["16.66", "16.67"] * 3,
           "z10": ["1", "0"], "z901": ["9", "0", "1"], "z0": ["0", "3", "0.0", "1"]}  # a switched-off arm serves nobody


# labels of a vector when they are not g0, g1, ...: a label listed twice owns the SUM of its weights (and nothing else changes)
LABELS = {"rep181": ["T", "C", "T"], "rep2112": ["a", "b", "b", "a"]}
VECTORS.update({"rep181": ["10", "80", "10"], "rep2112": ["2", "1", "1", "2"]})


def population(fam, off, m):
    if fam == "two-field":
        return [{"uid": off + i, "org": ("acme", "globex", "initech")[i % 3]} for i in range(m)]
    if fam == "three-field":
        return [{"uid": f"{off + i:08d}", "org": i % 7, "zone": ("eu", "us")[(i // 7) % 2]} for i in range(m)]
    if fam == "cond-on-splitter":
        return [{"uid": off + i} for i in range(m)]
    if fam == "long-key":  # realistic composite ids: a long common prefix, the distinguishing part at the end
        return [{"uid": "tenant=acme-corporation-emea/workspace=" + "w" * 120 + f"/user={off + i:012d}"} for i in range(m)]
    return [{"uid": vals.id_family(fam, off + i)} for i in range(m)]


def fields(fam):
    return {"two-field": ("uid", "org"), "three-field": ("uid", "org", "zone")}.get(fam, ("uid",))


def labels_of(vname):
    return LABELS.get(vname) or [f"g{i}" for i in range(len(VECTORS[vname]))]


def build_for(fam, salt, vname):
    v = VECTORS[vname]
    ret = ("ret", tuple(zip(labels_of(vname), v)))
    if fam == "cond-on-splitter":  # the splitter is also a condition field (as in the README's example): it is hashed all the same
        ret = ("if", ("cmp", ("id", "uid"), "!=", ("lit", -1)), ret, ("else", ret))
    ast = ("prog", "e", salt, fields(fam), ret)
    # (one salt of every sweep is written as ONE line with a block comment between all tokens: the statistics of a program do
    # not depend on how its source is laid out)
    text = rp.render(ast, sep=" /* c */ ") if salt == "a" else rp.render(ast)
    return text, impl.build(text)


def assign(ev, vname, pop):
    idx = {}
    for i, lab in enumerate(labels_of(vname)):
        idx.setdefault(lab, i)  # (a repeated label counts under its first entry)
    out = []
    for env in pop:
        r = impl.call(ev, env)
        out.append(idx.get(r[1], -1) if r[0] == "ok" and isinstance(r[1], str) else -1)
    return out


def _work(units):
    acc = progcheck.Acc()
    for fam, off, vnames, salts, m in units:
        # like a service that keeps many experiments alive: compile ALL of them first, evaluate afterwards
        built = {(vn, s): build_for(fam, s, vn) for vn in vnames for s in salts}
        pop = population(fam, off, m)
        chain = []
        for vname in vnames:
            v = [float(x) for x in VECTORS[vname]]
            if vname in LABELS:  # aggregate the weights of equal labels onto the first entry
                labs, agg = LABELS[vname], [0.0] * len(v)
                for i, lab in enumerate(labs):
                    agg[labs.index(lab)] += v[i]
                v = agg
            T = sum(v)
            results = {}
            for salt in salts:
                text, b = built[(vname, salt)]
                acc.add("programs")
                acc.add("evaluations", m)
                case = {"family": fam, "offset": off, "salt": salt, "weights": VECTORS[vname], "n": m, "compiled_together": [list(k) for k in built]}
                a = assign(b[1], vname, pop) if b[0] == "ok" else None
                if a is None or -1 in a:
                    acc.violation({"kind": "stat:eval", "case": case, "text": text, "observed": short(repr(b if b[0] != "ok" else "an evaluation failed or returned an undeclared group"))})
                    continue
                results[salt] = a
                counts = [a.count(i) for i in range(len(v))]
                dead = [i for i, (c, w) in enumerate(zip(counts, v)) if w == 0 and c]
                if dead:
                    acc.violation({"kind": "stat:gof", "case": case, "text": text, "observed": {"counts": counts},
                                   "why": f"group #{dead[0]} is declared with weight 0 and was assigned {counts[dead[0]]} of {m} units"})  # fmt: skip
                    continue
                x2 = sum((c - m * w / T) ** 2 / (m * w / T) for c, w in zip(counts, v) if w > 0)
                p = chi2.sf(x2, sum(1 for w in v if w > 0) - 1) if sum(1 for w in v if w > 0) > 1 else 1.0
                acc.add("gof_tests")
                if sum(1 for c in counts if c) >= 2:
                    acc.outcomes.add((fam, off, str(salt), vname))
                if p < ALPHA:
                    acc.violation({"kind": "stat:gof", "case": case, "text": text, "observed": {"counts": counts, "chi2": x2, "p": p},
                                   "why": f"group frequencies inconsistent with the declared weights (p={p:.3g} < {ALPHA})"})  # fmt: skip
                elif len(acc.samples) < 1:
                    acc.samples.append({"case": {k: case[k] for k in ("family", "offset", "salt", "weights", "n")}, "counts": counts, "chi2": round(x2, 3), "p": p})
            chain.append((vname, dict(results)))
            keys = [s for s in salts if s in results]
            for i in range(len(keys)):
                for j in range(i + 1, len(keys)):
                    s1, s2 = keys[i], keys[j]
                    if (s1 or "") == (s2 or ""):
                        continue  # absent and empty salt are the same salt
                    n = len(v)
                    tab = [[0] * n for _ in range(n)]
                    for x, y in zip(results[s1], results[s2]):
                        tab[x][y] += 1
                    rs = [sum(r) for r in tab]
                    cs = [sum(tab[r][c] for r in range(n)) for c in range(n)]
                    x2 = 0.0
                    for r in range(n):
                        for c in range(n):
                            e = rs[r] * cs[c] / m
                            if e > 0:
                                x2 += (tab[r][c] - e) ** 2 / e
                    df = (sum(1 for r in rs if r) - 1) * (sum(1 for c in cs if c) - 1)
                    p = chi2.sf(x2, df) if df > 0 else 1.0
                    acc.add("independence_tests")
                    acc.outcomes.add((fam, off, str(s1), str(s2), vname))
                    if p < ALPHA:
                        acc.violation({"kind": "stat:dependent", "case": {"family": fam, "offset": off, "salts": [s1, s2], "weights": VECTORS[vname], "n": m,
                                                                           "compiled_together": [list(k) for k in built]},
                                       "observed": {"chi2": x2, "df": df, "p": p}, "why": f"assignments under salts {s1!r} and {s2!r} are not independent (p={p:.3g})"})  # fmt: skip
        # ONE evaluator recompiled through all these configurations, the whole population evaluated after each
        # recompile: every assignment must equal the one a fresh evaluator of that configuration gave above
        ev, turn = None, False
        for vname, per_salt in chain:
            for salt, want in per_salt.items():
                text = built[(vname, salt)][0]
                try:
                    if ev is None:
                        ev = impl.ExperimentEvaluator(text)
                    else:
                        ev.recompile(text)
                except Exception as e:  # noqa
                    acc.violation({"kind": "stat:recompile", "case": {"family": fam, "offset": off, "n": m}, "text": text, "observed": f"{type(e).__name__}: {e}"})
                    continue
                # most recently served units first, then a second pass in the original order: whatever a result
                # cache kept from before the recompile is asked for before newer entries can push it out
                turn = not turn
                got = assign(ev, vname, pop[::-1])[::-1] if turn else assign(ev, vname, pop)
                acc.add("evaluations", m)
                if got != want:
                    d = sum(1 for a, b in zip(got, want) if a != b)
                    acc.violation({"kind": "stat:recompile", "case": {"family": fam, "offset": off, "salt": salt, "weights": VECTORS[vname], "n": m,
                                                                       "compiled_together": [list(k) for k in built]},
                                   "text": text, "observed": f"{d} of {m} units assigned differently",
                                   "why": "an evaluator recompiled to this configuration after serving the population under other configurations disagrees with a fresh evaluator"})  # fmt: skip
    return acc.out()


def _many_work(units):
    """a service with N experiments (distinct salts, alternating weight vectors) that rebuilds ALL its evaluators at
    every configuration poll: after the second poll each experiment must still split a population by ITS weights,
    and exactly like the published scheme says"""
    from .. import oracle

    acc = progcheck.Acc()
    for n_exp, m in units:
        names = list(VECTORS)
        texts, asts = [], []
        for i in range(n_exp):
            v = VECTORS[names[i % len(names)]]
            ast = ("prog", f"experiment_{i:03d}", f"salt-{i}", ("uid",), ("ret", tuple((f"g{j}", w) for j, w in enumerate(v))))
            asts.append(ast)
            texts.append(rp.render(ast))
        evs = None
        for poll in (1, 2, 3):
            evs = [impl.build(t) for t in texts]
            acc.add("programs", n_exp)
        pop = [{"uid": f"user-{k}"} for k in range(m)]
        for i in list(range(0, n_exp, max(1, n_exp // 24))) + [n_exp - 1]:
            b = evs[i]
            if b[0] != "ok":
                acc.violation({"kind": "stat:many", "case": {"experiments": n_exp, "index": i}, "text": texts[i], "observed": list(b)})
                continue
            bad = 0
            for env in pop:
                acc.add("evaluations")
                if oracle.agree(impl.call(b[1], env), oracle.expected(asts[i], env)):
                    bad += 1
            acc.outcomes.add(("many", n_exp, i % len(names)))
            if bad:
                acc.violation({"kind": "stat:many", "case": {"experiments": n_exp, "index": i, "n": m}, "text": texts[i], "observed": f"{bad} of {m} units are not in the group the published scheme gives",
                               "why": f"experiment #{i} of {n_exp} compiled in one process (3 configuration polls) no longer splits by its own salt / weights"})  # fmt: skip
    return acc.out()


def run(res, tier):
    chi2.selfcheck()
    for w in pmap(_many_work, [(n, 1500) for n in ((40, 300) if tier == "quick" else (40, 300, 600, 1100))], chunk=1):
        res.merge_worker(w)
    from ..common import hostile_runs

    hostile_runs(res, "mc.checks.c04", "_work", [["int", 0, ["eight125", "six1666"], [None], 150000], ["uuid", 0, ["123", "hh"], [None, "a"], 20000]])
    if tier == "quick":
        m = 20000
        units = [(f, o, ["11", "123", "ten", "hh", "z901", "z10", "rep181"], [None, "a", "exp_2024", "Checkout-Button", "checkout-button"], m) for f in FAMILIES for o in (0, 10**9)]
    else:
        m = 200000
        units = [(f, o, list(VECTORS), SALTS, m) for f in FAMILIES for o in OFFSETS]
    # salts that a tidying step (strip, case fold, whitespace collapse, NFC / NFKC, numeric coercion) would identify are
    # different salts: every group of such near-twins, pairwise independent
    from ..enum import collide

    for g in collide.NEAR_TWINS:
        ok = []
        for s_ in dict.fromkeys(g):
            ast = ("prog", "e", s_, ("uid",), ("ret", (("g0", "1"), ("g1", "1"))))
            try:
                if s_ != "" and rp.classify(rp.render(ast)) == ("accept", ast):
                    ok.append(s_)
            except ValueError:
                pass
        for fam in (["int"] if tier == "quick" else ["int", "uuid", "email"]):
            units.append((fam, 0, ["123"], ok, m if tier == "quick" else 50000))
    for w in pmap(_work, permuted(units, "c04"), chunk=1):
        res.merge_worker(w)
    res.set("distinct_nontrivial", len(res.outcomes))
    res.set("bounds", {"families": FAMILIES, "ids_per_population": m, "configurations": sum(len(u[2]) * len(u[3]) for u in units), "alpha": ALPHA})
    res.assumptions += ["the oracle is statistical: a deviation below the 1e-9 critical value at this population size is invisible here (C03 decides boundaries exactly)"]


def replay(data):
    c = data["case"]
    if data.get("host_environment"):
        from ..common import replay_in_host

        return replay_in_host(data, "mc.checks.c04", "_work", [["int", 0, ["eight125", "six1666"], [None], 150000], ["uuid", 0, ["123", "hh"], [None, "a"], 20000]])
    if data.get("kind") == "stat:many":
        r = _many_work([(c["experiments"], c.get("n", 1500))])
        return bool(r["viol"]), (r["viol"][0].get("why", "build failure") if r["viol"] else "every experiment follows its own definition")
    tog = c.get("compiled_together") or []
    vnames = sorted({k[0] for k in tog}) or [next(k for k, v in VECTORS.items() if v == c["weights"])]
    salts = list(dict.fromkeys([k[1] for k in tog])) or (c.get("salts") or [c.get("salt")])
    r = _work([(c["family"], c["offset"], vnames, salts, c["n"])])
    bad = [v for v in r["viol"] if v["kind"] == data["kind"]]
    return bool(bad), (bad[0].get("why", str(bad[0].get("observed"))) if bad else "consistent")
