"""C15 - evaluation is total over field values.

Every E-val value as the only splitter, as one of two splitters and as an unrelated extra
field x salts (ASCII, non-ASCII, quote, backslash) x 3 weight vectors.  Oracle: a declared
group is returned (the one R-hash/R-part names); values that print identically share a bucket.
Complete value families (mc/deepvals.py: every Unicode scalar value as a one-character id, every
string <= 3 over a hostile alphabet, int / float / length ladders) and every code point of a range
as a salt character are enumerated as well (quick: default salt, single splitter; thorough: 3 salts
x single / pair / extra field, the whole BMP as salt characters)."""
from __future__ import annotations

from .. import impl, progcheck
from ..common import enc, pmap, permuted, short
from ..enum import vals
from ..ref import parse as rp

LEVEL = "model_checking"
RULE = ("states = (salt, weight vector, splitter arity) programs; transitions = evaluations on every value of "
        "the E-val alphabet (str incl. non-ASCII/NUL/quotes/1e4..1e6 chars, big ints, special floats, bool, None) as "
        "splitter, co-splitter and extra field, plus the complete families of mc/deepvals.py (all 1 112 064 Unicode scalar "
        "values as one-character ids, all strings <= 3 over 14 hostile characters, int/float/length ladders) and every code point "
        "of a range as a salt character; oracle = reference scheme + same-str pairs share the bucket")  # fmt: skip

SALTS = [None, "", "s", "pricing-$$", "$$", "save%%", "a{{b}}", "fr&quot;x", "it&#39;s", "é", "日本", "e\u0301", "'", "\\", "a b", "\\'", "%s{0}", "🎲", "𝒳y𠀀", "\x7f\x01", "\u2028", "l’été", "“beta”", "‘a’", 'say "hi"', '"', "a\\"]
WV = {
    "ab": (("A", "1"), ("B", "1")),
    "123": (("x", "1"), ("y", "2"), ("z", "3")),
    "z0": (("n", "0"), ("p", "0.5"), ("q", "0"), ("r", "2")),
}


def _work(units):
    acc = progcheck.Acc()
    for salt, wname, tier in units:
        if wname == "ab":  # (whatever was compiled before in this process - an unterminated comment, an error)
            impl.build('def warmup { return "a" weighted 1 } /* TODO')
            impl.build('def e { return "a" weighted }')
        values = vals.ALL + ([vals.LONG] if tier == "thorough" or wname == "ab" and salt is None else [])
        ast1 = ("prog", "e", salt, ("uid",), ("ret", WV[wname]))
        ev = progcheck.check_prog(acc, ast1, [{"uid": v} for v in values], "single", want_sample=(wname == "123"))
        if ev is not None:
            # same-str pairs share a bucket (compared on the implementation alone)
            for a, b in vals.SAME_STR:
                acc.add("evaluations", 2)
                ra, rb = impl.call(ev, {"uid": a}), impl.call(ev, {"uid": b})
                if ra != rb or ra[0] != "ok":
                    acc.violation({"kind": "same-str", "sub": "eval", "text": rp.render(ast1), "env": enc({"uid": a}),
                                   "env2": enc({"uid": b}), "observed": short(repr((ra, rb)))})  # fmt: skip
            # extra unrelated field of every type changes nothing
            base = impl.call(ev, {"uid": "u1"})
            for v in values:
                acc.add("evaluations")
                r = impl.call(ev, {"uid": "u1", "extra": v})
                if r != base or r[0] != "ok":
                    acc.violation({"kind": "extra", "sub": "eval", "text": rp.render(ast1), "env": enc({"uid": "u1", "extra": v}),
                                   "observed": short(repr((base, r)))})  # fmt: skip
        ast2 = ("prog", "e", salt, ("uid", "org"), ("ret", WV[wname]))
        progcheck.check_prog(acc, ast2, [{"uid": v, "org": w} for v in vals.ALL for w in ("", "é", 7, None)], "pair")
    return acc.out()


DEEP_SALTS = [None, "é'\\", "𝒳 salt"]


def _deep(units):
    """complete value families (mc/deepvals.py) as the only splitter, as the first of two
    splitters, and as an ignored extra field"""
    from .. import deepvals

    acc = progcheck.Acc()
    for salt, fam, chunk, mode in units:
        values = deepvals.family(fam, chunk)
        if mode == "single":
            deepvals.check_family(acc, f"deep:{fam}:single", salt, ("uid",), 16, values)
        elif mode == "pair":
            deepvals.check_family(acc, f"deep:{fam}:pair", salt, ("uid", "org"), 3, values, {"org": "é"})
        else:  # the value rides along as an undeclared extra field: one constant unit, one expected group
            n = deepvals.check_family(acc, f"deep:{fam}:extra", salt, ("extra_", "uid"), 16, values, {"uid": "u1"})
            ast = ("prog", "e", salt, ("uid",), ("ret", deepvals.groups(16)))
            b = impl.build(rp.render(ast))
            if b[0] == "ok":
                base = impl.call(b[1], {"uid": "u1"})
                for v in values:
                    acc.add("evaluations")
                    r = impl.call(b[1], {"uid": "u1", "extra_": v})
                    if r != base or r[0] != "ok":
                        acc.violation({"kind": "extra", "sub": "eval", "text": rp.render(ast), "env": enc({"uid": "u1", "extra": v}), "observed": short(repr((base, r)))})
            acc.add("deep_distinct_groups", n)
    return acc.out()


def _salt_chars(units):
    """every code point of the slice as a one-character salt and inside a longer salt ("a<c>b"); 6 units each"""
    acc = progcheck.Acc()
    envs = [{"uid": u} for u in ("", "u1", 7, None, "é", 2.5)]
    for lo, hi, step in units:
        for c in range(lo, hi, step):
            if 0xD800 <= c <= 0xDFFF:
                continue
            for salt in (chr(c), "a" + chr(c) + "b"):
                ast = ("prog", "e", salt, ("uid",), ("ret", WV["123"]))
                try:
                    text = rp.render(ast)
                except ValueError:
                    text = None
                if text is None or rp.classify(text) != ("accept", ast):
                    acc.add("salts_not_expressible")
                    continue
                progcheck.check_prog(acc, ast, envs, "saltchar")
    return acc.out()


def run(res, tier):
    units = [(s, w, tier) for s in SALTS for w in WV]
    for w in pmap(_work, permuted(units, "c15"), chunk=1):
        res.merge_worker(w)
    if True:
        from .. import deepvals

        # quick: every family as the only splitter under the default salt; thorough: x 3 salts x (single, pair, extra)
        deep = [(s, f, c, m) for s in DEEP_SALTS for (f, c) in deepvals.units() for m in ("single", "pair", "extra") if not (m == "extra" and s is not None)
                and (tier == "thorough" or (s is None and m == "single"))]  # fmt: skip
        for w in pmap(_deep, permuted(deep, "c15deep"), chunk=1):
            res.merge_worker(w)
        res.set("deep_families", {f: deepvals.CHUNKS[f] for f in deepvals.FAMILIES})
        # salts: quick = every code point below U+0400 and every 211th above; thorough = the whole BMP and every 16th astral one
        if tier == "thorough":
            su = [(lo, lo + 0x400, 1) for lo in range(0, 0x10000, 0x400)] + [(lo, lo + 0x4000, 16) for lo in range(0x10000, 0x110000, 0x4000)]
        else:
            su = [(lo, lo + 0x80, 1) for lo in range(0, 0x400, 0x80)] + [(lo, min(lo + 0x8000, 0x110000), 211) for lo in range(0x400, 0x110000, 0x8000)]
            # every format / invisible / separator character (byte order mark, zero-width and directional marks, line and paragraph
            # separators, interlinear annotation, tags): they are ordinary salt characters
            su += [(0xAD, 0xAE, 1), (0x600, 0x606, 1), (0x61C, 0x61D, 1), (0x6DD, 0x6DE, 1), (0x180E, 0x180F, 1), (0x2000, 0x2070, 1), (0x3000, 0x3001, 1), (0xFE00, 0xFE10, 1), (0xFEFF, 0xFF00, 1),
                   (0xFFF0, 0x10000, 1), (0xE0001, 0xE0002, 1), (0xE0020, 0xE0030, 1), (0x1D173, 0x1D17B, 1)]
        for w in pmap(_salt_chars, permuted(su, "c15salt"), chunk=1):
            res.merge_worker(w)
    from ..common import hostile_runs

    hostile_runs(res, "mc.checks.c15", "_work", [[s_, "123", "quick"] for s_ in (None, "s", "é", "'")])
    res.set("states", res.cov.get("programs", 0))
    res.set("transitions", res.cov.get("evaluations", 0))
    res.set("traces_validated_against_impl", res.cov.get("evaluations", 0))
    res.set("bounds", {"salts": len(SALTS), "values": len(vals.ALL) + 1, "weight_vectors": len(WV)})
    res.assumptions += ["lone surrogates (not encodable in UTF-8) and ints beyond CPython's 4300-digit str() limit are outside the property's list"]


def replay(data):
    from ..common import dec

    if data.get("host_environment"):
        from ..common import replay_in_host

        return replay_in_host(data, "mc.checks.c15", "_work", [[s_, "123", "quick"] for s_ in (None, "s", "é", "'")])

    if data.get("kind") in ("same-str", "extra"):
        b = impl.build(data["text"])
        if b[0] != "ok":
            return True, f"construction fails {b}"
        if data["kind"] == "same-str":
            ra, rb = impl.call(b[1], dec(data["env"])), impl.call(b[1], dec(data["env2"]))
            return (ra != rb or ra[0] != "ok"), repr((ra, rb))[:300]
        e = dec(data["env"])
        r0 = impl.call(b[1], {"uid": e["uid"]})
        r1 = impl.call(b[1], e)
        return (r0 != r1 or r1[0] != "ok"), repr((r0, r1))[:300]
    return progcheck.replay_eval(data)
