"""C15 - evaluation is total over field values.

Every E-val value as the only splitter, as one of two splitters and as an unrelated extra
field x salts (ASCII, non-ASCII, quote, backslash) x 3 weight vectors.  Oracle: a declared
group is returned (the one R-hash/R-part names); values that print identically share a bucket."""
from __future__ import annotations

from .. import impl, progcheck
from ..common import enc, pmap, permuted, short
from ..enum import vals
from ..ref import parse as rp

LEVEL = "model_checking"
RULE = ("states = (salt, weight vector, splitter arity) programs; transitions = evaluations on every value of "
        "the E-val alphabet (str incl. non-ASCII/NUL/quotes/1e4..1e6 chars, big ints, special floats, bool, None) as "
        "splitter, co-splitter and extra field; oracle = reference scheme + same-str pairs share the bucket")  # fmt: skip

SALTS = [None, "", "s", "é", "日本", "e\u0301", "'", "\\", "a b", "\\'", "%s{0}", "🎲", "𝒳y𠀀", "\x7f\x01", "\u2028", "l’été", "“beta”", "‘a’", 'say "hi"', '"', "a\\"]
WV = {
    "ab": (("A", "1"), ("B", "1")),
    "123": (("x", "1"), ("y", "2"), ("z", "3")),
    "z0": (("n", "0"), ("p", "0.5"), ("q", "0"), ("r", "2")),
}


def _work(units):
    acc = progcheck.Acc()
    for salt, wname, tier in units:
        values = vals.ALL + ([vals.LONG] if tier == "thorough" or wname == "ab" and salt is None else [])
        ast1 = ("prog", "e", salt, ("uid",), ("ret", WV[wname]))
        ev = progcheck.check_prog(acc, ast1, [{"uid": v} for v in values], "single", want_sample=(wname == "123"))
        if ev is not None:
            # same-str pairs share a bucket (compared on the implementation alone)
            for a, b in vals.SAME_STR:
                acc.add("evaluations", 2)
                ra, rb = impl.call(ev, {"uid": a}), impl.call(ev, {"uid": b})
                if ra != rb or ra[0] != "ok":
                    acc.violation({"kind": "same-str", "sub": "eval", "text": rp.render(ast1), "env": enc({"uid": a}),
                                   "env2": enc({"uid": b}), "observed": short(repr((ra, rb)))})  # fmt: skip
            # extra unrelated field of every type changes nothing
            base = impl.call(ev, {"uid": "u1"})
            for v in values:
                acc.add("evaluations")
                r = impl.call(ev, {"uid": "u1", "extra": v})
                if r != base or r[0] != "ok":
                    acc.violation({"kind": "extra", "sub": "eval", "text": rp.render(ast1), "env": enc({"uid": "u1", "extra": v}),
                                   "observed": short(repr((base, r)))})  # fmt: skip
        ast2 = ("prog", "e", salt, ("uid", "org"), ("ret", WV[wname]))
        progcheck.check_prog(acc, ast2, [{"uid": v, "org": w} for v in vals.ALL for w in ("", "é", 7, None)], "pair")
    return acc.out()


def run(res, tier):
    units = [(s, w, tier) for s in SALTS for w in WV]
    for w in pmap(_work, permuted(units, "c15"), chunk=1):
        res.merge_worker(w)
    from ..common import hostile_runs

    hostile_runs(res, "mc.checks.c15", "_work", [[s_, "123", "quick"] for s_ in (None, "s", "é", "'")])
    res.set("states", res.cov.get("programs", 0))
    res.set("transitions", res.cov.get("evaluations", 0))
    res.set("traces_validated_against_impl", res.cov.get("evaluations", 0))
    res.set("bounds", {"salts": len(SALTS), "values": len(vals.ALL) + 1, "weight_vectors": len(WV)})
    res.assumptions += ["lone surrogates (not encodable in UTF-8) and ints beyond CPython's 4300-digit str() limit are outside the property's list"]


def replay(data):
    from ..common import dec

    if data.get("host_environment"):
        from ..common import replay_in_host

        return replay_in_host(data, "mc.checks.c15", "_work", [[s_, "123", "quick"] for s_ in (None, "s", "é", "'")])

    if data.get("kind") in ("same-str", "extra"):
        b = impl.build(data["text"])
        if b[0] != "ok":
            return True, f"construction fails {b}"
        if data["kind"] == "same-str":
            ra, rb = impl.call(b[1], dec(data["env"])), impl.call(b[1], dec(data["env2"]))
            return (ra != rb or ra[0] != "ok"), repr((ra, rb))[:300]
        e = dec(data["env"])
        r0 = impl.call(b[1], {"uid": e["uid"]})
        r1 = impl.call(b[1], e)
        return (r0 != r1 or r1[0] != "ok"), repr((r0, r1))[:300]
    return progcheck.replay_eval(data)
