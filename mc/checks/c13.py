"""C13 - source text is inert data: literals cannot inject code.

Every string of length <= k over an adversarial alphabet, plus a payload list that references a
sentinel planted in builtins, is substituted into each literal position (salt, group, left /
right operand, tuple member, nested tuple member) of the base shapes, in whichever quote style
can express it.  Oracle: (1) the Python AST of the generated source with constants masked is
identical to that of the same program with a harmless literal, and its constants are the
harmless ones with the marker replaced by the literal; (2) the set of callees observed by
sys.setprofile while EVALUATING is contained in the harmless run's (compiling may loop over the
characters of a literal, evaluating the fixed skeleton may not call anything new); (3) the
sentinel is never called."""
from __future__ import annotations

import ast as pyast
import builtins
import sys
from itertools import product

from .. import impl, progcheck
from ..common import enc, pmap, permuted, short
from ..ref import parse as rp

LEVEL = "model_checking"
RULE = ("states = (adversarial string, literal position, quote style) programs; transitions = code generations + "
        "compile-and-evaluate runs under sys.setprofile; oracle = masked-AST identity with the harmless program, "
        "constant == literal, no new callee during evaluation, sentinel never invoked")  # fmt: skip

SIGMA = ["'", '"', "\\", "(", ")", "+", "{", "}", "%", "n", "#", ",", "[", " "]
S = "__pyab_sentinel__"
PAYLOADS = [
    f"'+str({S}())+'", f'"+str({S}())+"', f"\\'+str({S}())+\\'", f"\\\\'+str({S}())+\\\\'", f"'''+str({S}())+'''",
    f"{{{S}()}}", f"%({S})s", "%s", "{0}", "{}", f"');{S}();('", f"' if {S}() else '", f"',{S}(),'", f"']+[{S}()]+['",
    f"'),{S}()#", f"')({S}()", f"\\", f"\\'", f"\\\\'", "'''", '"""', f"' or {S}() or '", f"'+str(print('PWNED'))+'",
    f"__import__('os').system('true')", f"'+__import__('os').getcwd()+'", "\\x27+str(1)+\\x27", "\\N{APOSTROPHE}", f"'\\\n{S}()#",
    f"')\\n{S}()\\n('", "';", "'#", "'\\", f"\\u0027+{S}()+\\u0027", f"' {S}() '", f"',weights=[{S}()],x='",
]  # fmt: skip
# the literal's own delimiter (and a newline) spelled in other notations - character references, URL / MIME / UTF-7
# encodings, escapes of other languages: a decoding layer anywhere in front of the lexer would end the literal there
ENCODED = {"'": ["&apos;", "&#39;", "&#x27;", "&#039;", "&amp;apos;", "%27", "\\u0027", "\\x27", "\\047", "=27", "+ACc-", "\\N{APOSTROPHE}", "&#x0027;", "&#39"],
           '"': ["&quot;", "&#34;", "&#x22;", "&QUOT;", "&amp;quot;", "%22", "\\u0022", "\\x22", "\\042", "=22", "+ACI-", "\\N{QUOTATION MARK}", "&quot", "&#34"]}
for _q, _encs in ENCODED.items():
    for _e in _encs:
        PAYLOADS += [f"{_e}+str({S}())+{_e}", f"fr{_e} or f != {_e}zz", f"s1{_e} splitters: uid return {_e}pwned{_e} weighted 1 }} /*", f"x{_e}", f"{_e}"]
# contents that spell a number, a constant or a name (a coercing model turns the literal into another kind of node), and
# contents that spell a field of the same program (a table keyed by spelling would confuse the two)
PAYLOADS += ["", " ", "''", '""', "nan", "inf", "-inf", "12", "1e3", "-1", "0x10", "1_0", "True", "None", "f", "uid", "g", "country", "e", "str", "exp", "__class__", " 12 ", "١٢"]
PAYLOADS += [f"a&#10;{S}()", f"a%0a{S}()", f"a\\n{S}()", f"a&#13;&#10;{S}()", "&amp;", "&lt;script&gt;", "&#0;", "&#x110000;", "&nbsp;", "%00", "%", "%2", "%%", "$$", "${" + S + "}", "$" + S, "\\$"]
MARK = "hArMlEsS"
T, F = ("ret", (("T", "1"),)), ("else", ("ret", (("F", "1"),)))


def shapes(v, field=None):
    """field: the identifier used by the 'fieldname' shape (defaults to v itself; the baseline keeps the identifier and
    replaces only the literal)"""
    L = ("lit", v)
    field = v if field is None else field
    yield "salt", ("prog", "e", v, ("uid",), ("ret", (("A", "1"), ("B", "1")))), {"uid": 1}
    yield "group", ("prog", "e", "s", ("uid",), ("ret", ((v, "1"), ("B", "0")))), {"uid": 1}
    yield "right", ("prog", "e", None, ("uid",), ("if", ("cmp", ("id", "f"), "==", L), T, F)), {"uid": 1, "f": v}
    yield "left", ("prog", "e", None, ("uid",), ("if", ("cmp", L, "!=", ("id", "f")), T, F)), {"uid": 1, "f": "q"}
    yield "tuple", ("prog", "e", None, ("uid",), ("if", ("cmp", ("id", "f"), "in", ("tup", (L, ("lit", 1)))), T, F)), {"uid": 1, "f": v}
    yield "pairs", ("prog", "e", None, ("uid",), ("if", ("cmp", ("id", "f"), "in", ("tup", (("tup", (("lit", "name"), L)), ("tup", (("lit", "a"), ("lit", "b")))))), T, F)), {"uid": 1, "f": ("name", v)}
    if field.isidentifier() and field not in ("uid", "e", "f") and not __import__("keyword").iskeyword(field):
        # the literal is spelled like a condition field of the same program
        yield "fieldname", ("prog", "e", None, ("uid",), ("if", ("or", ("cmp", ("id", field), "==", L), ("cmp", L, "==", ("id", "f"))), T, ("elif", ("cmp", ("id", "f"), "in", ("tup", (("id", field), L))), T, F))), {"uid": 1, field: "zz", "f": "yy"}
    yield "inright", ("prog", "e", None, ("uid",), ("if", ("cmp", ("id", "f"), "in", L), T, ("elif", ("cmp", ("lit", "zz"), "not in", L), T, F))), {"uid": 1, "f": v[:1]}
    yield "nested", ("prog", "e", v, ("uid",), ("if", ("cmp", ("id", "f"), "not in", ("tup", (("tup", (L, ("id", "g"))), L))), T, F)), {"uid": 1, "f": v, "g": 2}


HELPER_NAMES = ["partial", "str", "map", "deterministic_choice", "ExperimentConditionalFailedError", "choose_experiment_variant", "kwargs", "self", "print", "exec",
                "__import__", "globals", "code_holder", "ast", "fn_name", "hashlib", "PythonCodeGen", "parse_source", "accumulate", "bisect", "choices", "isfinite"]


def name_units(acc):
    """the experiment's NAME is a token too: naming it like something the evaluation skeleton uses must not change
    what is executed (compared with the same experiment under a neutral name)"""
    body = ("uid",), ("if", ("cmp", ("id", "f"), "==", ("lit", 1)), ("ret", (("A", "1"), ("B", "1"))), None)
    envs = [{"uid": 1, "f": 1}, {"uid": 2, "f": 0}]
    base = [run_profiled(rp.render(("prog", "neutral_name", "s", *body)), e) for e in envs]
    for nm in HELPER_NAMES:
        a = ("prog", nm, "s", *body)
        text = rp.render(a)
        if rp.classify(text) != ("accept", a):
            continue
        acc.add("programs")
        for e, (bout, bseq) in zip(envs, base):
            acc.add("evaluations")
            out, seq = run_profiled(text, e)
            if out != bout or not seq <= bseq | {nm}:
                acc.violation({"kind": "inert:expname", "text": text, "literal": nm, "position": "expname", "quote": '"', "env": enc(e), "sub": "outcome" if out != bout else "callees",
                               "observed": repr(out) if out != bout else short(repr(sorted(seq - bseq)), 200),
                               "why": f"an experiment merely NAMED {nm!r} behaves differently from the same experiment under a neutral name ({bout})"})  # fmt: skip
                break


def gen_source(text, expose):
    """generated Python source through the code-generation class (fast) or the public entry point"""
    try:
        from pyab_experiment.codegen.python.python_generator import PythonCodeGen

        p = impl.parse(text)
        if p[0] != "ok":
            return ("exc",) + tuple(p[1:])
        return ("ok", PythonCodeGen(p[1], expose_experiment_variant_function=expose).generate())
    except ImportError:
        return impl.gen(text, expose)
    except Exception as e:  # noqa
        return ("exc", type(e).__name__, str(e)[:200])


def masked(src):
    tree = pyast.parse(src)
    consts = []
    for node in pyast.walk(tree):
        if isinstance(node, pyast.Constant):
            consts.append(node.value)
            node.value = 0
    return pyast.dump(tree), consts


class Profile:
    def __init__(self):
        self.seq = []

    def __call__(self, frame, event, arg):
        if event == "call":
            self.seq.append(frame.f_code.co_name)
        elif event == "c_call":
            self.seq.append("C:" + getattr(arg, "__name__", "?"))


def run_profiled(text, env):
    """compile, then evaluate under sys.setprofile -> (outcome class, set of callees of the EVALUATION).
    Only the evaluation phase is profiled: compiling may legitimately loop over the characters of a
    literal (an escaping routine), evaluating the compiled skeleton may not call anything new."""
    b = impl.build(text)
    if b[0] != "ok":
        return (b[0], b[0]), frozenset()
    prof = Profile()
    sys.setprofile(prof)
    try:
        out = impl.call(b[1], env)
    finally:
        sys.setprofile(None)
    seq = frozenset(s for s in prof.seq if s not in ("quiet", "__enter__", "__exit__", "C:setprofile"))
    return (b[0], out[0]), seq


_BASE = {}


def baseline(pos, q, expose, field=None):
    key = (pos, q, expose, field if pos == "fieldname" else None)
    if key not in _BASE:
        for p, a, env in shapes(MARK, field=field if pos == "fieldname" else None):
            if p == pos:
                text = rp.render(a, quote=q)
                g = gen_source(text, expose)
                try:
                    m = masked(g[1]) if g[0] == "ok" else None
                except (SyntaxError, TypeError, ValueError):
                    m = None
                if m is None:  # even the harmless program yields no valid Python: reported by the caller
                    _BASE[key] = (None, ((g[0], short(repr(g[1:]), 120)), frozenset()))
                    continue
                env2 = {k: (v if v != MARK else MARK) for k, v in env.items()}
                _BASE[key] = (m, run_profiled(text, env2))
    return _BASE[key]


def _work(units):
    acc = progcheck.Acc()
    if units and units[0] == "__names__":
        name_units(acc)
        return acc.out()
    if units and units[0] == "__onto__":
        onto_work(acc)
        return acc.out()
    calls = []
    setattr(builtins, S, lambda *a, **k: calls.append(1) or "")
    try:
        for v in units:
            before = None
            if isinstance(v, (tuple, list)):  # ("__after__", poison text, literal): the poison text is compiled before every step
                before, v = v[1], v[2]
            for pos, a, env in shapes(v):
                for q in ('"', "'"):
                    if q in v or "\n" in v:
                        continue
                    text = rp.render(a, quote=q)
                    cl = rp.classify(text)
                    if cl[0] != "accept" or cl[1] != a:
                        acc.add("ambiguous_skipped")
                        continue
                    acc.add("programs")
                    case = {"kind": f"inert:{pos}", "text": text, "literal": v, "env": enc(env), "position": pos, "quote": q}
                    if before is not None:
                        case["before"] = before
                    for expose in (False, True):
                        acc.add("evaluations")
                        bm, (bout, bseq) = baseline(pos, q, expose, field=v)
                        if bm is None:
                            acc.violation(dict(case, sub="ast", observed=short(repr(bout), 200), why="the code generated for the harmless program of this shape is not valid Python / could not be generated"))
                            continue
                        bdump, bconsts = bm
                        if before is not None:
                            impl.build(before)
                        g = gen_source(text, expose)
                        if g[0] != "ok":
                            acc.violation(dict(case, sub="codegen", observed=list(g), why="code generation failed"))
                            continue
                        try:
                            dump, consts = masked(g[1])
                        except (SyntaxError, TypeError, ValueError) as e:
                            acc.violation(dict(case, sub="ast", observed=f"SyntaxError: {e}", why="generated source is not valid Python"))
                            continue
                        want = [v if c == MARK else c for c in bconsts]
                        if dump != bdump:
                            acc.violation(dict(case, sub="ast", observed=short(g[1].replace("\t", " "), 300), why="program structure differs from the harmless program's"))
                        elif consts != want:
                            acc.violation(dict(case, sub="const", observed=short(repr(consts), 200), why=f"constants differ from {short(repr(want), 200)}"))
                    n0 = len(calls)
                    acc.add("evaluations")
                    if before is not None:
                        impl.build(before)
                    out, seq = run_profiled(text, env)
                    acc.outcomes.add(f"{pos}:{out}")
                    if len(calls) != n0:
                        acc.violation(dict(case, sub="sentinel", observed=f"sentinel called {len(calls) - n0}x", why="a payload inside a literal was executed"))
                    elif out != bout:
                        acc.violation(dict(case, sub="outcome", observed=repr(out), why=f"harmless program ends with {bout}"))
                    elif not seq <= bseq:
                        acc.violation(dict(case, sub="callees", observed=short(repr(sorted(seq - bseq)), 200),
                                           why=f"evaluating the experiment called something the harmless program's evaluation never calls (its callees: {short(repr(sorted(bseq)), 300)})"))  # fmt: skip
                    elif len(acc.samples) < 1 and S in v:
                        acc.samples.append({"literal": v, "position": pos, "text": short(text, 160), "callees": len(seq)})
    finally:
        delattr(builtins, S)
    return acc.out()


def strings(k):
    for n in range(1, k + 1):
        for t in product(SIGMA, repeat=n):
            yield "".join(t)


def harvested_payloads():
    """string constants, marker-like fragments and helper names taken from the first-party modules that build
    or run the generated code: a literal that happens to contain one of the generator's own placeholders /
    fragments must still be inert"""
    import importlib
    import inspect
    import re

    out = set()
    for m in ("pyab_experiment.codegen.python.python_generator", "pyab_experiment.codegen.python", "pyab_experiment.codegen",
              "pyab_experiment.experiment_evaluator", "pyab_experiment.utils.wraper_functions", "pyab_experiment.binning.binning"):
        try:
            src = inspect.getsource(importlib.import_module(m))
        except (ImportError, OSError, TypeError):
            continue
        try:
            tree = pyast.parse(src)
        except SyntaxError:
            continue
        for node in pyast.walk(tree):
            if isinstance(node, pyast.Constant) and isinstance(node.value, str) and 1 < len(node.value) <= 60 and "\n" not in node.value:
                out.add(node.value.strip())
                out.update(x for x in re.findall(r"[@%$<{\[]{1,2}[A-Za-z_]{2,24}[@%$>}\]]{1,2}", node.value))
        out.update(re.findall(r"[@%$<{]{1,2}[A-Z_]{2,24}[@%$>}]{1,2}", src))
    res = []
    for x in sorted(out):
        if x and not ('"' in x and "'" in x):
            res += [x, f"x{x}y", f"{x}'+str({S}())+'"]
    return res[:900]


def long_payloads(tier):
    """long literals (line-wrapping / chunking logic) with an escape-needing character at every offset of a
    window, and payloads behind every character Python's tokenizer treats as a line end"""
    out = []
    step = 1 if tier == "thorough" else 1
    for n in range(60, 132, step):
        for c in ("\\", "\t", "\r", "\x01", "'"):
            out.append("a" * n + c + f"'+str({S}())+'")
    for n in (200, 500, 1000, 5000):
        out.append("b" * n + "\\" + f"\'+str({S}())+\'")
        out.append(("\\" * n) + f"'+str({S}())+'")
    for c in ("\r", "\x0b", "\x0c", "\x1c", "\x1d", "\x1e", "\x85", "\u2028", "\u2029"):
        out += [f"x{c}{S}()", f"x{c}import os{c}{S}()", f"{c}{S}()#", f"x'{c}{S}(){c}'"]
    return out


# texts compiled BEFORE a program (state kept between compilations must not let a literal's content be read as source)
POISON = ['def warmup { return "a" weighted 1 } /* TODO', "/*", 'def e { /* never closed return "a" weighted 1 }', 'def e { return "a" weighted 1 } // open', 'def e { salt: "unterminated }',
          'def e { return "a" weighted 1 @ }', "def e { return 'a' weighted 1 } /* x */ /*"]
AFTER_LITERALS = [f"*/ def pwned {{ return 'evil' weighted 1 }} /*", "*/", "x */ y", f"*/ {S}() /*", f"a */ return '{S}' weighted 1 }} /*", "// x", "/* y */", f"'+str({S}())+'", "plain"]


ONTO = [("http://old.example/a", "http://new.example/b"), ("v2 // stable", "v2 // beta"), ("x//y", "x//z"), ("img/*.png", "img/*.jpg"), ("/*a*/", "/*b*/"), ("a /* b", "a /* c"), ("k # one", "k # two"),
        ("-- x", "-- y"), ("; drop", "; keep"), ("<!-- a -->", "<!-- b -->"), ("a\\ b", "a\\ c")]


def onto_work(acc):
    """the CONTENT of a literal may not decide whether a recompile takes effect: an evaluator built from program(a) and
    recompiled to program(b) behaves like a fresh evaluator of program(b)"""
    from ..common import quiet

    for a, b in ONTO:
        for x, y in ((a, b), (b, a)):
            for (pos, pa, env), (_p, pb, _e) in zip(shapes(x), shapes(y)):
                if pos in ("fieldname", "inright"):
                    continue
                for q in ('"', "'"):
                    try:
                        ta, tb = rp.render(pa, quote=q), rp.render(pb, quote=q)
                    except ValueError:
                        continue
                    if rp.classify(ta) != ("accept", pa) or rp.classify(tb) != ("accept", pb):
                        continue
                    acc.add("programs")
                    ev, fresh = impl.build(ta), impl.build(tb)
                    if ev[0] != "ok" or fresh[0] != "ok":
                        continue
                    envs = [dict(env, f=x), dict(env, f=y), dict(env, uid=2, f=("name", y)), dict(env, uid=3)]
                    try:
                        with quiet():
                            ev[1].recompile(tb)
                    except Exception as e:  # noqa
                        acc.violation({"kind": f"inert:{pos}", "text": tb, "literal": y, "before": ta, "position": pos, "quote": q, "sub": "onto", "env": enc(env), "observed": f"{type(e).__name__}: {e}",
                                       "why": "recompiling to a text that differs only inside a literal raised"})  # fmt: skip
                        continue
                    for e2 in envs:
                        acc.add("evaluations")
                        g, w = impl.call(ev[1], e2), impl.call(fresh[1], e2)
                        if g != w:
                            acc.violation({"kind": f"inert:{pos}", "text": tb, "literal": y, "before": ta, "position": pos, "quote": q, "sub": "onto", "env": enc(e2), "observed": short(repr(g)),
                                           "why": f"an evaluator holding the program with literal {x!r} was recompiled to the one with {y!r}: it returns {g!r}, a fresh evaluator {w!r}"})  # fmt: skip
                            break


def run(res, tier):
    k = 3 if tier == "quick" else 4
    units = list(dict.fromkeys(PAYLOADS + long_payloads(tier) + harvested_payloads() + list(strings(k))))
    units += [("__after__", p, v) for p in POISON for v in AFTER_LITERALS]
    for w in pmap(_work, permuted(units, "c13"), chunk=8):
        res.merge_worker(w)
    res.merge_worker(_work(["__names__"]))
    for w in pmap(_work, ["__onto__"], chunk=1, inline_ok=False):
        res.merge_worker(w)
    res.set("states", res.cov.get("programs", 0))
    res.set("transitions", res.cov.get("evaluations", 0))
    res.set("traces_validated_against_impl", res.cov.get("evaluations", 0))
    res.set("bounds", {"alphabet": SIGMA, "max_len": k, "payloads": len(PAYLOADS), "positions": 7, "layouts": 2})
    res.assumptions += ["string contents holding a newline or both quote characters cannot be written in the DSL and are skipped"]


def replay(data):
    if data.get("sub") == "onto":
        r = _work(["__onto__"])
        bad = [v for v in r["viol"] if v.get("literal") == data.get("literal")] or r["viol"]
        return bool(bad), (bad[0]["why"] if bad else "the recompile takes effect")
    if data.get("position") == "expname":
        r = _work(["__names__"])
        bad = [v for v in r["viol"] if v["literal"] == data["literal"]]
        return bool(bad), (bad[0]["why"] if bad else "behaves like the neutral name")
    r = _work([("__after__", data["before"], data["literal"]) if "before" in data else data["literal"]])
    bad = [v for v in r["viol"] if v.get("position") == data.get("position") and v.get("quote") == data.get("quote")]
    return bool(bad), (bad[0]["sub"] + ": " + bad[0]["why"] if bad else "no longer fails")
