"""C05 - literals reach run time with their exact value and type.

Every E-lit content in every literal position (group definition, left / right operand, tuple
member, nested tuple member, salt), both quote styles, evaluated on inputs equal to and
minimally different from the literal.  Oracle: Python == on the exact reference value, and
exact value+type of the returned group."""
from __future__ import annotations

from .. import impl, oracle, progcheck
from ..common import enc, pmap, permuted, quiet
from ..enum import lits
from ..ref import parse as rp

LEVEL = "model_checking"
RULE = ("states = (literal content, position, quote style) programs compiled by the real pipeline; transitions = "
        "evaluations on the literal's neighbour inputs (equal, one char / one unit / other type with equal text); "
        "oracle = reference interpreter on the verbatim literal value, exact value+type for returned groups")  # fmt: skip

POSITIONS = ["group", "right", "left", "tuple", "nested", "salt", "ne", "group2", "tuple1", "tuple1eq", "tuple1nested"]


def programs_for(v):
    """(position, ast, envs) for literal value v"""
    L = ("lit", v)
    T, F = ("ret", (("T", "1"),)), ("else", ("ret", (("F", "1"),)))
    nb = lits.neighbours(v)
    yield "group", ("prog", "e", None, ("u",), ("ret", ((v, "1"),))), [{"u": 1}]
    yield "group2", ("prog", "e", None, ("u",), ("ret", ((v, "1"), (v, "0"), ("z", "0")))), [{"u": 1}, {"u": "b"}]
    yield "right", ("prog", "e", None, ("u",), ("if", ("cmp", ("id", "f"), "==", L), T, F)), [{"u": 1, "f": x} for x in nb]
    yield "left", ("prog", "e", None, ("u",), ("if", ("cmp", L, "==", ("id", "f")), T, F)), [{"u": 1, "f": x} for x in nb]
    yield "ne", ("prog", "e", None, ("u",), ("if", ("cmp", ("id", "f"), "!=", L), T, None)), [{"u": 1, "f": x} for x in nb]
    yield "tuple", ("prog", "e", None, ("u",), ("if", ("cmp", ("id", "f"), "in", ("tup", (L, ("lit", "zz")))), T, F)), [{"u": 1, "f": x} for x in nb]
    yield "nested", ("prog", "e", None, ("u",), ("if", ("cmp", ("id", "f"), "in", ("tup", (("tup", (("lit", "q"), L)), ("lit", "zz")))), T, F)), \
        [{"u": 1, "f": ("q", x)} for x in nb] + [{"u": 1, "f": "q"}, {"u": 1, "f": v}]  # fmt: skip
    # one-member tuples: (m) is a tuple, not m
    yield "tuple1", ("prog", "e", None, ("u",), ("if", ("cmp", ("id", "f"), "in", ("tup", (L,))), T, F)), [{"u": 1, "f": x} for x in nb] + [{"u": 1, "f": (v,)}]
    yield "tuple1eq", ("prog", "e", None, ("u",), ("if", ("cmp", ("id", "f"), "==", ("tup", (L,))), T, F)), [{"u": 1, "f": (x,)} for x in nb] + [{"u": 1, "f": v}]
    yield "tuple1nested", ("prog", "e", None, ("u",), ("if", ("cmp", ("id", "f"), "in", ("tup", (("tup", (L,)), ("lit", "zz")))), T, F)), \
        [{"u": 1, "f": (x,)} for x in nb] + [{"u": 1, "f": v}, {"u": 1, "f": ((v,),)}]  # fmt: skip
    # a long all-constant tuple is still a tuple (== / nesting / ordering), whatever its length
    rest = tuple(("lit", k) for k in range(1, 10))
    big = ("tup", (L,) + rest)
    yield "tuple10eq", ("prog", "e", None, ("u",), ("if", ("cmp", ("id", "f"), "==", big), T, F)), \
        [{"u": 1, "f": (x,) + tuple(range(1, 10))} for x in nb[:4]] + [{"u": 1, "f": v}]  # fmt: skip
    yield "tuple10nested", ("prog", "e", None, ("u",), ("if", ("cmp", ("id", "f"), "in", ("tup", (big, ("lit", "zz")))), T, F)), \
        [{"u": 1, "f": (x,) + tuple(range(1, 10))} for x in nb[:3]] + [{"u": 1, "f": v}, {"u": 1, "f": "zz"}]  # fmt: skip
    if isinstance(v, str):
        yield "salt", ("prog", "e", v, ("u",), ("ret", tuple((f"g{i}", "1") for i in range(16)))), [{"u": i} for i in range(6)]


EQUAL_PAIRS = [(1, 1.0), (1.0, 1), (0, 0.0), (0.0, 0), (0.0, -0.0), (-0.0, 0.0), (2, 2.0), (-1, -1.0), (100.0, 100), (1, "1"), ("1", 1), ("a", "a "),
               (2**53, float(2**53)), (0.5, "0.5"), ("", " ")]


def equal_pair_programs():
    """return statements whose neighbouring groups are == (or look alike) but differ in type / value"""
    for a, b in EQUAL_PAIRS:
        for groups in (((a, "1"), (b, "1")), ((a, "1"), (b, "1"), (a, "1")), (("x", "1"), (a, "2"), (b, "2"), ("y", "1"))):
            yield ("prog", "e", None, ("u",), ("ret", groups)), [{"u": i} for i in range(48)]


# tuple literals shaped like the keyword records of the syntax-tree nodes (a model that coerces "anything dict() accepts")
RECORDS = [
    (("id", 7), ("name", "bob")), (("name", "bob"),), (("name", "g"),), (("name", "f"),), ("name", "bob"), ("ab", "cd"), (("name", "f"), ("name", "g")),
    (("group_definition", "x"), ("group_weight", 1)), (("left_term", 1), ("logical_operator", "=="), ("right_term", 1)),
    (("left_predicate", 1), ("boolean_operator", "and"), ("right_predicate", 2)), (("predicate", 1), ("true_branch", 2), ("false_branch", 3)),
    (("conditional_type", "if"), ("predicate", 1), ("true_branch", 2)), (("id", "e"), ("splitting_fields", "u"), ("salt", "s"), ("conditions", 1)),
    (("name", 5),), (("name", 2.5), ("x", 1)), ((1, 2), (3, 4)), (("a", 1), ("b", 2)),
]


def record_programs():
    from ..enum.ops import term_of

    T, F = ("ret", (("T", "1"),)), ("else", ("ret", (("F", "1"),)))
    for R in RECORDS:
        L = term_of(R)
        near = [R, R[:-1] or (0,), R + (0,), list(R), R[0], "bob", "g", "f", 1]
        try:
            near.append(dict(R))
        except (TypeError, ValueError):
            pass
        envs = [{"u": 1, "f": x, "g": "G", "bob": "B"} for x in near]
        yield "rec:right", ("prog", "e", None, ("u",), ("if", ("cmp", ("id", "f"), "==", L), T, F)), envs
        yield "rec:left", ("prog", "e", None, ("u",), ("if", ("cmp", L, "!=", ("id", "f")), T, F)), envs
        yield "rec:member", ("prog", "e", None, ("u",), ("if", ("cmp", ("id", "f"), "in", ("tup", (L, ("lit", "zz")))), T, F)), envs
        yield "rec:in", ("prog", "e", None, ("u",), ("if", ("cmp", ("id", "f"), "in", L), T, F)), [{"u": 1, "f": x} for x in list(R) + ["bob", "name", 1, R]]
        yield "rec:both", ("prog", "e", None, ("u",), ("if", ("cmp", L, "==", L), T, F)), [{"u": 1}]


def branch_pair_programs():
    """two return statements of ONE program whose labels look alike (same str(), same weights) but differ in type or value:
    each branch returns its own labels (tables shared between branches by a textual key would mix them up)"""
    K = ("cmp", ("id", "k"), "==", ("lit", 1))
    pairs = EQUAL_PAIRS + [("0", 0), ("1.5", 1.5), ("-3", -3), ("02134", 2134), ("1e5", 100000.0), ("inf", 1), ("A", "A "), ("A:1.0, B", "A"), ("a", "A"), (7, 7.0)]
    for a, b in pairs:
        for w in ("1", "2.5"):
            t1 = ("ret", ((a, w), ("z", "1")))
            t2 = ("ret", ((b, w), ("z", "1")))
            envs = [{"u": i, "k": k} for i in range(10) for k in (1, 0)]
            yield ("prog", "e", None, ("u",), ("if", K, t1, ("else", t2))), envs
            yield ("prog", "e", None, ("u",), ("if", K, t2, ("elif", ("not", K), t1, None))), envs
            yield ("prog", "e", None, ("u",), ("if", K, ("ret", ((a, w), (b, w))), ("else", ("ret", ((b, w), (a, w)))))), envs
            yield ("prog", "e", None, ("u",), ("if", K, ("ret", ((a, w),)), ("else", ("ret", ((b, w),))))), envs[:4]


def _work(units):
    acc = progcheck.Acc()
    for v in units:
        if v == "__branch_pairs__":
            for ast, envs in branch_pair_programs():
                progcheck.check_prog(acc, ast, envs, "lit:branch-pairs")
            continue
        if v == "__records__":
            for pos, ast, envs in record_programs():
                progcheck.check_prog(acc, ast, envs, f"lit:{pos}")
            continue
        if v == "__comment_twins__":
            # texts that differ ONLY inside a comment-looking region of a string literal, compiled one after the other
            # in one process (a cache keyed by the comment-stripped source would mix them up)
            twins = [("http://old.example/a", "http://new.example/b"), ("//a", "//b"), ("img/*.png", "img/*.jpg"), ("/*a*/", "/*b*/"), ("x//y", "x//z"),
                     ("a/* b", "a/* c"), ("css/**/main.css", "css/**/other.css"), ("// TODO", "// DONE"), ("a */ b", "a */ c"), ("\\//a", "\\//b")]
            for a, b in twins:
                for lit in (a, b, a):
                    for pos, ast, envs in programs_for(lit):
                        if pos in ("group", "right", "tuple", "salt"):
                            for q in ('"', "'"):
                                text = rp.render(ast, quote=q)
                                cl = rp.classify(text)
                                if cl[0] == "accept" and cl[1] == ast:
                                    progcheck.check_prog(acc, ast, envs, f"lit:twin:{pos}", text=text)
            continue
        if v == "__recompile_pairs__":
            # ONE evaluator recompiled from a program to its near-identical twin: the twin's literal must take over
            pairs = [("p q", "p  q"), ("p\x0cq", "p\x0c q"), ("p\rq", "p\r q"), ("p\u2028q", "p\x85q"), ("Pq", "pq"), ("q ", "q"), ("a\tb", "a b"), ("é", "e\u0301"),
                     ("1", 1), (1, 1.0), (0.0, -0.0), ("//a", "//b"), ("x", "x\u200b"), ("ab", "ab\ufeff"), (10**20, 10**20 + 1), (0.1, 0.10000000000000002)]
            for a, b in pairs:
                for first, second in ((a, b), (b, a)):
                    for (pos, ast1, _e1), (_p2, ast2, envs2) in zip(programs_for(first), programs_for(second)):
                        if pos not in ("group", "right", "tuple", "salt"):
                            continue
                        b1 = impl.build(rp.render(ast1))
                        if b1[0] != "ok":
                            continue
                        text2 = rp.render(ast2)
                        acc.add("programs")
                        try:
                            with quiet():
                                b1[1].recompile(text2)
                        except Exception as e:  # noqa
                            acc.violation({"kind": f"lit:recompile:{pos}", "sub": "build", "text": text2, "before": rp.render(ast1), "observed": f"{type(e).__name__}: {e}"})
                            continue
                        for env in envs2:
                            acc.add("evaluations")
                            why = oracle.agree(impl.call(b1[1], env), oracle.expected(ast2, env))
                            if why:
                                acc.violation({"kind": f"lit:recompile:{pos}", "sub": "eval", "text": text2, "before": rp.render(ast1), "env": enc(env),
                                               "why": "after recompiling from a near-identical text: " + why})  # fmt: skip
                                break
            continue
        if v == "__equal_pairs__":
            for ast, envs in equal_pair_programs():
                progcheck.check_prog(acc, ast, envs, "lit:equal-neighbours")
            continue
        for pos, ast, envs in programs_for(v):
            quotes = ['"', "'"] if isinstance(v, str) else ['"']
            for q in quotes:
                try:
                    text = rp.render(ast, quote=q)
                except ValueError:
                    acc.add("inexpressible_skipped")
                    continue
                if isinstance(v, str) and (q in v):
                    continue  # render() silently switched quote style: covered by the other iteration
                cl = rp.classify(text)
                if cl[0] != "accept" or cl[1] != ast:
                    acc.add("ambiguous_skipped")
                    continue
                progcheck.check_prog(acc, ast, envs, f"lit:{pos}", text=text, want_sample=(pos == "right" and v in ("02134", 2**53 + 1)))
    return acc.out()


def run(res, tier):
    k = 2 if tier == "quick" else 4
    vals = list(dict.fromkeys(list(lits.strings(k)) + lits.NAMED))
    nums = []
    for i in lits.INTS:
        nums += [i, -i] if i else [0]
    for d in lits.DECS:
        nums += [float(d), -float(d)]
    units = vals + nums + ["__equal_pairs__", "__comment_twins__", "__recompile_pairs__", "__records__", "__branch_pairs__"]
    for w in pmap(_work, permuted(units, "c05"), chunk=8):
        res.merge_worker(w)
    res.set("states", res.cov.get("programs", 0))
    res.set("transitions", res.cov.get("evaluations", 0))
    res.set("traces_validated_against_impl", res.cov.get("evaluations", 0))
    res.set("bounds", {"string_len": k, "alphabet": lits.SIGMA, "named": len(lits.NAMED), "numbers": len(nums), "positions": POSITIONS})
    res.assumptions += ["decimal literals whose value overflows binary64 (>= 309 digits) are outside the alphabet",
                        "string contents holding both quote characters or a newline are not expressible in the DSL and are skipped (counted)"]  # fmt: skip


def replay(data):
    if "before" in data:
        b = impl.build(data["before"])
        if b[0] != "ok":
            return False, "the first text no longer compiles"
        try:
            b[1].recompile(data["text"])
        except Exception as e:  # noqa
            return True, f"recompile raises {type(e).__name__}"
        from ..common import dec

        cl = rp.classify(data["text"])
        why = oracle.agree(impl.call(b[1], dec(data["env"])), oracle.expected(cl[1], dec(data["env"])))
        return bool(why), why or "agrees"
    return progcheck.replay_eval(data)
