"""C14 - generated Python module text is equivalent to the in-memory evaluator.

Every program of E-shape (P <= 4 / 6), E-op, E-ident singles, nested tuples, the size family and
multi-group weighted returns x both layouts of generate_code: the text is compiled stand-alone
in a fresh namespace, must define a callable named after the experiment, and must give the same
group / the same exception class as ExperimentEvaluator(text) (and as the reference) on every
input of those enumerators."""
from __future__ import annotations

import random

from .. import impl, oracle, progcheck
from ..common import enc, pmap, permuted, short
from ..enum import idents as ei
from ..enum import ops as eops
from ..enum import shapes as esh
from ..ref import parse as rp

LEVEL = "model_checking"
RULE = ("states = (program, layout) module texts produced by the real generate_code and executed stand-alone; "
        "transitions = calls of the module's function, each compared with the in-memory evaluator of the same "
        "source (outcome class and value) and with the reference interpreter")  # fmt: skip


def outcome(fn, env):
    random.seed(4242)
    try:
        return ("ok", fn(**env))
    except impl.ExperimentConditionalFailedError:
        return ("unroutable",)
    except Exception as e:  # noqa
        return ("exc", type(e).__name__)


def check(acc, tag, ast, envs, text=None, before=None, between=None):
    """before: a text compiled (accepted or not) right before every step; between: a text compiled after the evaluator and the
    module function exist and before they are called (other experiments keep being compiled in a living process)"""
    text = rp.render(ast) if text is None else text
    cl = rp.classify(text)
    if cl[0] != "accept" or cl[1] != ast:
        acc.add("ambiguous_skipped")
        return
    if before is not None:
        impl.build(before)
    b = impl.build(text)
    if b[0] != "ok":
        acc.add("evaluator_build_failed")
        g = impl.gen(text, False)
        if g[0] == "ok":  # the two entry points disagree about the same grammatical source
            acc.violation({"kind": f"module:{tag}", "text": text, "expose": False, "sub": "build-diff", "observed": list(b),
                           "why": "generate_code accepts this source and produces a module, the evaluator refuses to be built from it"})  # fmt: skip
        return
    name = ast[1]
    for expose in (False, True):
        acc.add("programs")
        case = {"kind": f"module:{tag}", "text": text, "expose": expose}
        if before is not None:
            impl.build(before)
        g = impl.gen(text, expose)
        if g[0] != "ok":
            acc.violation(dict(case, sub="generate", observed=list(g), why="generate_code failed on a source the evaluator accepts"))
            continue
        # stand-alone means: in ANY fresh namespace - a bare dict (exec(text, {})) and a module-like one
        for nskind in ("bare", "module"):
            ns = {} if nskind == "bare" else {"__name__": "generated_module"}
            case = {"kind": f"module:{tag}", "text": text, "expose": expose, "namespace": nskind}
            try:
                exec(compile(g[1], "<generated>", "exec"), ns)
            except Exception as e:  # noqa
                acc.violation(dict(case, sub="exec", observed=f"{type(e).__name__}: {e}", why="module text is not valid stand-alone Python", module=short(g[1], 400)))
                continue
            fn = ns.get(name)
            if not callable(fn):
                acc.violation(dict(case, sub="name", observed=sorted(k for k in ns if not k.startswith("__"))[:8], why=f"no callable named {name!r}"))
                continue
            if before is not None:
                case["before"] = before
            if between is not None:
                impl.build(between)
                case["between"] = between
            for env in envs:
                acc.add("evaluations")
                a = outcome(fn, env)
                e = outcome(b[1], env)
                acc.outcomes.add(a[0] + (":" + str(a[1])[:10] if len(a) > 1 else ""))
                if a != e and not (a[0] == "ok" == e[0] and oracle.same_value(a[1], e[1])):
                    acc.violation(dict(case, sub="diff", env=enc(env), observed=short(repr(a)), why=f"in-memory evaluator gives {short(repr(e))}"))
                    continue
                if ast[3]:  # deterministic: also compare with the reference
                    out = a if a[0] != "exc" else ("exc", a[1], "")
                    why = oracle.agree(out, oracle.expected(ast, env)) if a[0] != "exc" else None
                    if why:
                        acc.violation(dict(case, sub="ref", env=enc(env), observed=short(repr(a)), why=why))
        if len(acc.samples) < 1 and expose:
            acc.samples.append({"text": short(text, 160), "layout": "exposed", "module_head": short(g[1], 200)})


T2 = 'def exp {{ splitters: uid if country == {0} {{ return "a" weighted 3, "b" weighted 1 }} else {{ return "c" weighted 1 }} }}'
T3 = 'def exp {{ splitters: uid if country {0} {{ return "a" weighted 3, "b" weighted 1 }} else {{ return "c" weighted 1 }} }}'
L1 = 'def exp { splitters: uid return "a" weighted 3 // , "b" weighted 1\n , "z" weighted 1 }'
CHAINS = [[T2.format('"us"'), T2.format("us"), T2.format('"us"'), T2.format("'us'")], [T2.format('"1"'), T2.format("1"), T2.format("1.0")], [T2.format("n"), T2.format('"n"')],
          [T3.format('in ("us", "ca")'), T3.format('not in ("us", "ca")'), T3.format('in ("us" , "ca")')], [T3.format('== "us" or n == 1'), T3.format('== "us" and n == 1')],
          [L1, L1.replace("//", "//\n", 1).replace('1\n', "1 ", 1), L1], [T2.format('"wave 1"'), T2.format('"wave  1"'), T2.format('"Wave 1"'), T2.format('"wave 1" /* c */')]]
CHAIN_ENVS = [{"uid": u, "country": c, "us": x, "n": n} for u in (1, "x", 7) for c, x in (("us", "zz"), ("zz", "zz"), ("ca", "ca"), ("1", 1), (1, "1"), ("n", 0), ("wave 1", 0), ("wave  1", 0)) for n in (0, 1)]


def check_chain(acc, texts):
    """ONE evaluator recompiled from text to text (edits that change a token's KIND but not its spelling, an operator, the
    layout around a comment): after every step it must agree with the module text generated from the text it was just given"""
    from ..common import quiet

    ev = None
    for step, text in enumerate(texts):
        cl = rp.classify(text)
        if cl[0] != "accept":
            acc.add("ambiguous_skipped")
            continue
        acc.add("programs")
        try:
            if ev is None:
                ev = impl.ExperimentEvaluator(text)
            else:
                with quiet():
                    ev.recompile(text)
        except Exception as e:  # noqa
            acc.violation({"kind": "module:chain", "text": text, "expose": False, "sub": "build-diff", "observed": f"{type(e).__name__}: {e}", "chain": texts[: step + 1],
                           "why": "the evaluator refuses a grammatical text during a chain of recompiles"})  # fmt: skip
            return
        g = impl.gen(text, False)
        if g[0] != "ok":
            continue
        ns = {}
        try:
            exec(compile(g[1], "<generated>", "exec"), ns)
        except Exception:  # noqa  (reported by the plain units)
            continue
        fn = ns.get(cl[1][1])
        for env in CHAIN_ENVS:
            acc.add("evaluations")
            a, e = outcome(fn, env), outcome(ev, env)
            if a != e and not (a[0] == "ok" == e[0] and oracle.same_value(a[1], e[1])):
                acc.violation({"kind": "module:chain", "text": text, "expose": False, "sub": "diff", "env": enc(env), "observed": short(repr(a)), "chain": texts[: step + 1],
                               "why": f"after this chain of recompiles the in-memory evaluator gives {short(repr(e))}, the module text generated from the last text gives {short(repr(a))}"})  # fmt: skip
                return


FRESH_PROGRAMS = ['def exp { splitters: uid return "a" weighted 1, "b" weighted 2, "c" weighted 1 }',
                  'def exp { salt: "s" splitters: uid, org if f >= 10 { return "A" weighted 1, 2 weighted 1 } else if f in (1, 2) { return "B" weighted 1 } }',
                  'def exp { splitters: uid if f == 100000000000000000000000000000000000000000000000000 { return "big" weighted 1 } else { return "small" weighted 1, "x" weighted 1 } }',
                  'def exp { return "r1" weighted 0, "r2" weighted 5 }']
# inputs as Python expressions (evaluated on both sides; a 5000-digit int cannot even be parsed from text under the default
# int-string limit, so it is computed)
FRESH_INPUTS = ["{'uid': 1, 'org': 'a', 'f': 10}", "{'uid': 'x', 'org': None, 'f': 1}", "{'uid': 10**4299, 'org': 'a', 'f': 3}", "{'uid': 10**5000, 'org': 'a', 'f': 10}",
                "{'uid': -(10**5000) - 1, 'org': 10**6000, 'f': 1}", "{'uid': 1.5, 'org': 'a', 'f': 10**50}", "{'uid': 1, 'org': 'a'}", "{'uid': float('nan'), 'org': 'é', 'f': 2}",
                "{'uid': '1' * 5000, 'org': 'a', 'f': 11}", "{'uid': True, 'org': (1, 2), 'f': 10}"]
_CHILD = r"""
import json, sys, random
job = json.loads(sys.stdin.read())
out = []
for text, name in job["modules"]:
    ns = {}
    try:
        exec(compile(text, "<generated>", "exec"), ns)
        fn = ns[name]
    except Exception as e:
        out.append(["module-failed", type(e).__name__])
        continue
    rows = []
    for expr in job["inputs"]:
        env = eval(expr)
        random.seed(4242)
        try:
            v = fn(**env)
            rows.append(["ok", repr(v), type(v).__name__])
        except Exception as e:
            rows.append(["exc", type(e).__name__])
    out.append(rows)
sys.stdout.write("@@" + json.dumps(out))
"""


def check_fresh_process(acc):
    """the module texts executed in a FRESH interpreter that imports nothing but what the text itself imports (stand-alone
    means: no process-wide setting or registration made by the library's other modules is there to lean on)"""
    import json
    import os
    import subprocess
    import sys

    from ..common import REPO

    mods, want = [], []
    for text in FRESH_PROGRAMS:
        cl = rp.classify(text)
        b = impl.build(text)
        if cl[0] != "accept" or b[0] != "ok":
            continue
        for expose in (False, True):
            g = impl.gen(text, expose)
            if g[0] != "ok":
                continue
            acc.add("programs")
            mods.append((g[1], cl[1][1]))
            rows = []
            for expr in FRESH_INPUTS:
                env = eval(expr)  # noqa: S307  (our own constant expressions)
                random.seed(4242)
                try:
                    v = b[1](**env)
                    rows.append(["ok", repr(v), type(v).__name__])
                except Exception as e:  # noqa
                    rows.append(["exc", type(e).__name__])
            want.append((text, expose, rows))
    env = {k: v for k, v in os.environ.items() if not k.startswith("PYTHON")}
    env.update(PYTHONPATH=os.path.join(REPO, "src"), PYTHONDONTWRITEBYTECODE="1", PYTHONHASHSEED="0")
    p = subprocess.run([sys.executable, "-c", _CHILD], input=json.dumps({"modules": mods, "inputs": FRESH_INPUTS}), capture_output=True, text=True, timeout=300, env=env)
    if p.returncode != 0 or "@@" not in p.stdout:
        from ..common import HarnessFault

        raise HarnessFault("fresh-interpreter child failed: " + p.stderr[-500:])
    got = json.loads(p.stdout.split("@@", 1)[1])
    for (text, expose, rows), grows in zip(want, got):
        if grows and grows[0] == "module-failed":
            acc.violation({"kind": "module:fresh-process", "text": text, "expose": expose, "sub": "exec", "observed": grows, "why": "the module text cannot be executed in a fresh interpreter"})
            continue
        for expr, a, e in zip(FRESH_INPUTS, grows, rows):
            acc.add("evaluations")
            if a != e:
                acc.violation({"kind": "module:fresh-process", "text": text, "expose": expose, "sub": "diff", "input": expr, "observed": short(repr(a)),
                               "why": f"executed stand-alone in a fresh interpreter the module gives {short(repr(a))}; the evaluator built from the same source gives {short(repr(e))}"})  # fmt: skip
                break


def _work(units):
    acc = progcheck.Acc()
    for u in units:
        if u[0] == "around":
            _, before, between = u
            for tag, a, e in list(ei.sharing())[:4] + list(ei.nested_tuples())[:2] + [x for x in ei.big() if x[0].startswith(("lazy", "nest:3", "groups:5"))]:
                check(acc, "around:" + tag.split(":")[0], a, e[:6], before=before, between=between)
            continue
        if u[0] == "fresh":
            check_fresh_process(acc)
            continue
        if u[0] == "chain":
            check_chain(acc, CHAINS[u[1]])
            continue
        if u[0] == "shape":
            _, P, lo, hi = u
            names = [f"p{k}" for k in range(P)]
            sk = esh._C(P)
            for j in range(lo, hi):
                ast = esh.prog_of(esh._number(sk[j], {"p": 0, "r": 0}))
                check(acc, "shape", ast, [dict(e, u="id7") for e in esh.assignments(names)])
        elif u[0] == "case":
            _, tag, ast, envs = u
            check(acc, tag, ast, envs)
        elif u[0] == "raw":
            _, tag, ast, envs, text = u
            check(acc, tag, ast, envs, text=text)
    return acc.out()


def units(tier):
    P = 4 if tier == "quick" else 6
    out = []
    for p in range(P + 1):
        n = esh.count_shapes(p)
        out += [("shape", p, lo, min(n, lo + 8)) for lo in range(0, n, 8)]
    for tag, pred, envs in eops.op_cases():
        if tier == "quick" and ":lit" in tag and "lit" in tag.split(":", 1)[1].replace("lit", "", 1):
            continue  # lit-op-lit constants: thorough only
        ast = esh.prog_of(("if", pred, ("ret", (("T", "1"),)), ("elif", ("not", pred), ("ret", (("F", "1"),)), None)))
        out.append(("case", "op:" + tag.split(":")[0], ast, [dict(e, u="id7") for e in envs]))
    for gen in (ei.singles(ei.POOL1), ei.nested_tuples(), ei.sharing()):
        out += [("case", tag.split(":")[0], a, e) for tag, a, e in gen]
    for tag, a, e in ei.big():
        last = tag.rsplit(":", 1)[1]
        k = int(last) if last.isdigit() else 1
        if tier == "thorough" or k in (1, 2, 3, 12, 20, 59, 60, 63, 64, 99, 100, 101, 199, 250, 300, 600):
            out.append(("case", tag.split(":")[0], a, e))
    # literal contents (backslash escapes, quotes, non-ASCII, separators) in group / operand / salt position,
    # and the same contents inside comments of the source text
    from ..enum import lits

    for v in lits.NAMED + ["C:\\Users\\xavier", "\\x", "\\N{DASH}", "\\u12", "\\U0001", "\\777", "%d", "{", "}}", "$x", "`"]:
        if "\n" in v or ('"' in v and "'" in v):
            continue
        a = ("prog", "exp", v, ("uid",), ("if", ("cmp", ("id", "f"), "==", ("lit", v)), ("ret", ((v, "1"), ("B", "1"))), ("else", ("ret", (("Z", "1"),)))))
        envs = [{"uid": i, "f": f} for i in range(3) for f in (v, v + "x")]
        out.append(("case", "literal", a, envs))
        if "*/" not in v and "\r" not in v:
            plain = ("prog", "exp", "s", ("uid",), ("ret", (("A", "1"), ("B", "1"))))
            txt = f"// {v}\n/* {v} */ " + rp.render(plain) + f" // {v}"
            out.append(("raw", "comment", plain, [{"uid": i} for i in range(3)], txt))
    # characters that str.splitlines() / universal-newline handling treat as line ends, inside a line comment that is
    # followed by active-looking text: for the language the comment ends at the line feed only
    for sep in ("\r", "\x0b", "\x0c", "\x1c", "\x1d", "\x1e", "\x85", "\u2028", "\u2029"):
        plain = ("prog", "exp", None, ("uid",), ("ret", tuple((f"g{i}", "1") for i in range(8))))
        for txt in (f'def exp {{ // note{sep} salt : "zz"\n splitters : uid return ' + ", ".join(f'"g{i}" weighted 1' for i in range(8)) + " }",
                    f'def exp {{ /* note{sep} */ // x{sep} salt : "zz"\n splitters : uid // y{sep}\n return ' + ", ".join(f'"g{i}" weighted 1' for i in range(8)) + f" }} // z{sep} }}"):
            if rp.classify(txt) == ("accept", plain):
                out.append(("raw", "comment-sep", plain, [{"uid": i} for i in range(12)], txt))
    # literals beyond the range of a double (both paths must still agree, whatever they do with them)
    huge = "1" + "0" * 309 + ".0"
    for body in (f'if f == {huge} {{ return "T" weighted 1 }} else {{ return "F" weighted 1 }}', f'if f in ({huge}, 1) {{ return "T" weighted 1 }} else {{ return "F" weighted 1 }}',
                 f'if f > - {huge} {{ return "T" weighted 1 }} else {{ return "F" weighted 1 }}', f'return {huge} weighted 1, "B" weighted 1', f'return "A" weighted {huge}, "B" weighted 1'):
        txt = "def exp { splitters: uid " + body + " }"
        cl = rp.classify(txt)
        if cl[0] == "accept":
            out.append(("raw", "hugefloat", cl[1], [{"uid": i, "f": f} for i in range(3) for f in (1, 0.5, float("inf"))], txt))
    # weighted multi-group returns, salts, no splitters (random draw, seeded identically)
    wv = (("A", "1"), ("B", "2"), (3, "0.5"), (-1.5, "0"))
    for salt in (None, "s", "é'\\"):
        for split in (("uid",), ("b", "a"), None):
            a = ("prog", "exp", salt, split, ("if", ("cmp", ("id", "f"), ">=", ("lit", 0)), ("ret", wv), ("else", ("ret", (("Z", "1"), ("Y", "1"))))))
            ids = list(range(12)) + [0.0, -0.0, 1.0, True, (1,), (1.0,), "1", None, 2**70, "\udce9x", "a\ud800", 10**5000]  # (the last three cannot be keyed: the same error on both sides)  # equal-but-differently-printing values in a row
            envs = [dict({"f": f}, **({s: i for s in split} if split else {})) for f in (-1, 0, 1) for i in ids]
            envs.append({"f": 1})  # missing splitter (when declared): same error class in both
            out.append(("case", "weighted", a, envs))
    out += [("chain", j) for j in range(len(CHAINS))]
    out.append(("fresh",))
    # other texts compiled before / in between: unterminated comments and errors, experiments named like the helpers of the skeleton
    POISON = ['def warmup { return "a" weighted 1 } /* TODO', "/*", 'def e { return "a" weighted 1 @ }', 'def e { return "a" weighted }', 'def e { salt: "unterminated }']
    NAMED = ['def map { splitters: uid return "M1" weighted 1, "M2" weighted 1 }', 'def str { return "S" weighted 1 }', 'def partial { return "P" weighted 1 }',
             'def deterministic_choice { return "D" weighted 1 }', 'def exp { return "other exp" weighted 1 }', 'def e { splitters: zz return "other e" weighted 1 }']
    out += [("around", p_, None) for p_ in POISON] + [("around", None, n_) for n_ in NAMED] + [("around", POISON[0], NAMED[0])]
    return out


def run(res, tier):
    for w in pmap(_work, permuted(units(tier), "c14"), chunk=2):
        res.merge_worker(w)
    res.set("states", res.cov.get("programs", 0))
    res.set("transitions", res.cov.get("evaluations", 0))
    res.set("traces_validated_against_impl", res.cov.get("evaluations", 0))
    res.assumptions += ["for experiments without splitters the random source is seeded identically before the two calls that are compared"]


def replay(data):
    cl = rp.classify(data["text"])
    if cl[0] != "accept":
        return False, "reference no longer accepts the text"
    from ..common import dec

    acc = progcheck.Acc()
    envs = [dec(data["env"])] if "env" in data else [{}]
    check(acc, "replay", cl[1], envs)
    if data.get("sub") == "build-diff":
        b, g = impl.build(data["text"]), impl.gen(data["text"], False)
        return (b[0] != "ok" and g[0] == "ok"), f"evaluator: {b[0]}, generate_code: {g[0]}"
    check(acc, "replay", cl[1], envs, text=data["text"])
    bad = [v for v in acc.viol if v["expose"] == data["expose"]]
    return bool(bad), (bad[0]["sub"] + ": " + bad[0]["why"] if bad else "module and evaluator agree")
