"""C18 - confidence-interval helpers: well-formed, textbook, monotone, conservative z.

Exhaustive sweep of a finite grid (n log-grid to 1e9 x p x confidence x both methods; alpha on a
dyadic grid of (0,1) plus the decades to 1e-300).  Numeric oracle: independent textbook formulas
evaluated with the module's own z, statistics.NormalDist for the true quantile."""
from __future__ import annotations

import math
from statistics import NormalDist

from ..common import bind_repo, pmap, permuted, short

bind_repo()
from pyab_experiment.utils import stats  # noqa: E402

LEVEL = "exploration"
RULE = ("evaluations = calls of probit / confidence_interval on the grid; a case is non-trivial when its "
        "inputs are distinct grid points (n, p, confidence, method) or distinct alpha; distinct_nontrivial counts distinct "
        "returned intervals / z values")  # fmt: skip

EPS = 2.0**-52
C = math.sqrt(math.pi / 8)
NS = sorted({1, 2, 3, 5, 7} | {int(round(10 ** (e / 4))) for e in range(4, 37)} | {1.0, 1.5, 1.9, 2.5, 9.99, 33.3, 33333.3, 1e9 + 0.5, 7.000001})  # "every n >= 1": effective sample sizes are not integers
PS = [k / 40 for k in range(41)]
CONFS = sorted({1e-6, 1e-3, 0.01, 0.05, 0.1, 0.25, 0.5, 0.6, 0.75, 0.8, 0.9, 0.95, 0.975, 0.99, 0.995, 0.999, 0.9999,
                1 - 1e-5, 1 - 1e-6, 1 - 1e-8, 1 - 1e-10, 1 - 1e-12, 0.3, 0.4, 0.68})  # fmt: skip
METHODS = ["agresti-coull", "wald"]
UNKNOWN = ["wilson", "clopper-pearson", "bogus", "", "agre\u017fti-coull", "agre\ufb06i-coull", "ｗａｌｄ", "wald\u200b", "wa\u0131d", "agresti\u2010coull", "agresti_coull",
           "agresti coull", "wal", "waldo", "agresti-coull-wald", "\u212aald", "ac", "a", "-", "agresti", "coull", "ald", "w", "W", "None", "0",
           b"wald", b"agresti-coull", bytearray(b"wald"), ("wald",), ["agresti-coull"]]  # a name of another type is not one of the two known names either


def textbook(n, p, conf, method, z):
    if method == "agresti-coull":
        n2 = n + z * z
        p2 = (p * n + z * z / 2) / n2
        h = z * math.sqrt(p2 * (1 - p2) / n2)
        return p2 - h, p2 + h
    h = z * math.sqrt(p * (1 - p) / n)
    return p - h, p + h


def close(a, b, rel=1e-9):
    if not all(isinstance(x, (int, float)) and not isinstance(x, bool) for x in (a, b)):
        return False  # complex / None / str: never "close" to a textbook number
    return abs(a - b) <= rel * max(1.0, abs(a), abs(b))


def _work(units):
    viol, n_eval, outs = [], 0, set()
    for u in units:
        if u[0] == "ci":
            _, method, p = u
            prev_by_conf = {}
            for n in NS:
                prev_w = None
                for conf in CONFS:
                    n_eval += 1
                    case = {"n": n, "p": p, "confidence": conf, "method": method}
                    try:
                        lo, hi = stats.confidence_interval(n, p, conf, method)
                        z = stats.probit((1 - conf) / 2)
                    except Exception as e:  # noqa
                        viol.append({"kind": "ci:raises", "case": case, "observed": f"{type(e).__name__}: {e}"})
                        continue
                    if not all(isinstance(x, (int, float)) and not isinstance(x, bool) for x in (lo, hi, z)):
                        viol.append({"kind": "ci:order", "case": case, "observed": repr((lo, hi, z)), "why": "the bounds and the z-score are real numbers"})
                        continue
                    outs.add((lo, hi))
                    if not (lo <= hi):
                        viol.append({"kind": "ci:order", "case": case, "observed": repr((lo, hi)), "why": "lower <= upper"})
                    tlo, thi = textbook(n, p, conf, method, z)
                    if not (close(lo, tlo) and close(hi, thi)):
                        viol.append({"kind": "ci:textbook", "case": case, "observed": repr((lo, hi)), "why": f"textbook formula with the module's z={z!r} gives {(tlo, thi)!r}"})
                    w = hi - lo
                    if prev_w is not None and w < prev_w * (1 - 1e-9) - 1e-15:
                        viol.append({"kind": "ci:mono-confidence", "case": case, "observed": repr(w), "why": f"width must not shrink when confidence grows (previous confidence gave {prev_w!r})"})
                    prev_w = w
                    pw = prev_by_conf.get(conf)
                    if pw is not None and w > pw * (1 + 1e-9) + 1e-15:
                        viol.append({"kind": "ci:mono-n", "case": case, "observed": repr(w), "why": f"width must not grow when n grows (previous n gave {pw!r})"})
                    prev_by_conf[conf] = w
                    # never narrower than the exact-normal interval of the same formula
                    zt = abs(NormalDist().inv_cdf((1 - conf) / 2))
                    elo, ehi = textbook(n, p, conf, method, zt)
                    if w < (ehi - elo) * (1 - 1e-9) - 1e-15:
                        viol.append({"kind": "ci:conservative", "case": case, "observed": repr(w), "why": f"narrower than exact-normal width {ehi - elo!r}"})
        elif u[0] == "spelling":
            # every way of spelling a call (positional / keyword / keyword order / defaults left out) x a value set shared by
            # p and confidence, executed one after the other in ONE process, forwards or backwards: each call is the
            # textbook value of ITS OWN resolved arguments (a memo keyed by argument values alone would mix them up)
            V = [0.05, 0.25, 0.5, 0.75, 0.95]
            calls = []
            for n in (10, 100):
                for a in V:
                    calls += [((n, a), {}), ((n,), {"p": a}), ((n,), {"confidence": a}), ((), {"n": n, "p": a}), ((), {"n": n, "confidence": a}), ((), {"p": a, "n": n}),
                              ((), {"confidence": a, "n": n})]  # fmt: skip
                    for b in V:
                        calls += [((n, a, b), {}), ((n, a), {"confidence": b}), ((n,), {"p": a, "confidence": b}), ((n,), {"confidence": b, "p": a}),
                                  ((), {"confidence": b, "p": a, "n": n}), ((n, a, b, "wald"), {}), ((n, a, b), {"method": "wald"}), ((n,), {"method": "wald", "confidence": b, "p": a}),
                                  ((n, a, b, "agresti-coull"), {}), ((n, a), {"method": "agresti-coull", "confidence": b})]  # fmt: skip
            for a in V:
                calls += [((), {"p": a}), ((), {"confidence": a}), ((), {"method": "wald", "p": a}), ((), {"method": "wald", "confidence": a})]
            calls += [((), {}), ((10,), {}), ((), {"method": "wald"}), ((), {"method": "agresti-coull"})]
            if u[1] == "rev":
                calls = calls[::-1]
            for rnd in (1, 2):
                for args, kw in calls:
                    n_eval += 1
                    full = dict(zip(("n", "p", "confidence", "method"), args), **kw)
                    n, pp, conf, method = full.get("n", 10), full.get("p", 0.5), full.get("confidence", 0.95), full.get("method", "agresti-coull")
                    case = {"n": n, "p": pp, "confidence": conf, "method": method, "spelling": {"args": list(args), "kwargs": kw}, "order": u[1]}
                    try:
                        lo, hi = stats.confidence_interval(*args, **kw)
                        if isinstance(lo, complex) or isinstance(hi, complex):
                            raise TypeError(f"complex bounds {(lo, hi)!r}")
                    except Exception as e:  # noqa
                        viol.append({"kind": "ci:spelling", "case": case, "observed": f"{type(e).__name__}: {e}", "why": "a well-formed call raised"})
                        continue
                    tlo, thi = textbook(n, pp, conf, method, C * abs(math.log(((1 - conf) / 2) / (1 - (1 - conf) / 2))))
                    outs.add((lo, hi))
                    if not (close(lo, tlo) and close(hi, thi)):
                        viol.append({"kind": "ci:spelling", "case": case, "observed": repr((lo, hi)),
                                     "why": f"this call means n={n} p={pp} confidence={conf} method={method}: textbook {(tlo, thi)!r} (calls are made one after the other in one process, {u[1]})"})  # fmt: skip
            for a in V + [0.025, 0.975]:
                for args, kw in (((a,), {}), ((), {"alpha": a})):
                    n_eval += 1
                    try:
                        z = stats.probit(*args, **kw)
                    except Exception as e:  # noqa
                        z = f"{type(e).__name__}: {e}"
                    if not isinstance(z, float) or not close(z, C * abs(math.log(a / (1 - a)))):
                        viol.append({"kind": "ci:spelling", "case": {"alpha": a, "spelling": {"args": list(args), "kwargs": kw}, "order": u[1]}, "observed": repr(z), "why": "probit of its own argument"})
            n_eval += 1
            try:
                z0 = stats.probit()
            except Exception as e:  # noqa
                z0 = f"{type(e).__name__}: {e}"
            if z0 != 0.0:
                viol.append({"kind": "ci:spelling", "case": {"alpha": "default", "order": u[1]}, "observed": repr(z0), "why": "probit() is probit(0.5) = 0"})
        elif u[0] == "threads":
            # two threads ask for intervals at different confidence levels (every interleaving with <= bound preemptions at the
            # line points of the stats module, real threads under the controlled scheduler of mc/xsched.py); each answer, and
            # every later sequential answer, is the textbook value of its own arguments
            from .. import xsched

            confs = (0.9, 0.99)

            def make():
                ctx = {"results": {}}

                def body(conf):
                    def run(ex, tid):
                        ctx["results"][tid] = [stats.confidence_interval(100, 0.5, conf), stats.confidence_interval(100, 0.5, confidence=conf, method="wald")]

                    return run

                return [body(c) for c in confs], ctx

            def want(conf, method):
                return textbook(100, 0.5, conf, method, C * abs(math.log(((1 - conf) / 2) / (1 - (1 - conf) / 2))))

            def chk(ex, ctx):
                if ex.errors:
                    return {"kind": "ci:threads", "case": {"confidences": list(confs)}, "why": f"a thread died: {ex.errors}"}
                for tid, conf in enumerate(confs):
                    got = ctx["results"].get(tid)
                    exp = [want(conf, "agresti-coull"), want(conf, "wald")]
                    if not got or any(not (close(g[0], e[0]) and close(g[1], e[1])) for g, e in zip(got, exp)):
                        return {"kind": "ci:threads", "case": {"confidences": list(confs)}, "observed": repr(got), "why": f"thread {tid} asked for confidence {conf}: textbook {exp!r}"}
                for conf in confs:  # and afterwards, sequentially
                    g, e = stats.confidence_interval(100, 0.5, conf), want(conf, "agresti-coull")
                    if not (close(g[0], e[0]) and close(g[1], e[1])):
                        return {"kind": "ci:threads", "case": {"confidences": list(confs)}, "observed": repr(g), "why": f"after the threads were joined, confidence {conf} gives {g!r}, textbook {e!r}"}
                return None

            st = {}
            with xsched.Instrument("line", ["pyab_experiment.utils.stats"]):
                # every schedule in a forked child: state the helper may keep at module level (a cache) must not leak from one
                # execution into the next, or the same schedule would not replay
                vs = xsched.explore(make, chk, u[1], stats=st, isolate=True)
            n_eval += st.get("schedules", 0)
            outs.add(("schedules", st.get("schedules", 0)))
            for v in vs:
                v["bound"] = u[1]
                viol.append(v)
        elif u[0] == "unknown":
            for m in UNKNOWN:
                n_eval += 1
                try:
                    r = stats.confidence_interval(10, 0.5, 0.95, m)
                    viol.append({"kind": "ci:unknown-method", "case": {"n": 10, "p": 0.5, "confidence": 0.95, "method": m}, "observed": repr(r), "why": "an unknown method name must be refused"})
                except Exception as e:  # noqa
                    outs.add(type(e).__name__)
        elif u[0] == "z":
            _, lo_j, hi_j, bits = u
            nd = NormalDist()
            for j in range(lo_j, hi_j):
                a = j / (1 << bits)
                n_eval += 2
                try:
                    z, z2 = stats.probit(a), stats.probit(1 - a)
                except Exception as e:  # noqa
                    viol.append({"kind": "z:raises", "case": {"alpha": repr(a)}, "observed": f"{type(e).__name__}: {e}"})
                    continue
                outs.add(z)
                zt = abs(nd.inv_cdf(a))
                if not (z >= zt - 4 * EPS * C - 1e-12 * zt) or z < 0:
                    viol.append({"kind": "z:conservative", "case": {"alpha": repr(a)}, "observed": repr(z), "why": f"z must be >= the true normal quantile {zt!r}"})
                if abs(z - z2) > C * (8 * EPS + 8 * EPS * abs(math.log(a / (1 - a)))):
                    viol.append({"kind": "z:symmetry", "case": {"alpha": repr(a)}, "observed": repr((z, z2)), "why": "probit(alpha) must equal probit(1-alpha)"})
        elif u[0] == "zpairs":
            # exact complementary pairs at the extremes: alpha = 2^-e and 1 - 2^-e (both exact doubles for e <= 53)
            for e in range(1, 54):
                a, b = 2.0**-e, 1 - 2.0**-e
                if not (0 < b < 1):
                    continue
                n_eval += 2
                try:
                    z, z2 = stats.probit(a), stats.probit(b)
                except Exception as ex:  # noqa
                    viol.append({"kind": "z:raises", "case": {"alpha": repr(a)}, "observed": f"{type(ex).__name__}: {ex}"})
                    continue
                outs.add(z)
                if abs(z - z2) > C * (8 * EPS + 8 * EPS * abs(math.log(a / (1 - a)))) + 1e-12 * z:
                    viol.append({"kind": "z:symmetry", "case": {"alpha": repr(a)}, "observed": repr((z, z2)), "why": "probit(alpha) must equal probit(1-alpha)"})
            for a in (math.nextafter(0.5, 1), math.nextafter(0.5, 0), 0.5):
                n_eval += 1
                try:
                    z = stats.probit(a)
                except Exception as ex:  # noqa
                    viol.append({"kind": "z:raises", "case": {"alpha": repr(a)}, "observed": f"{type(ex).__name__}: {ex}"})
                    continue
                if not (0 <= z < 1e-15):
                    viol.append({"kind": "z:conservative", "case": {"alpha": repr(a)}, "observed": repr(z), "why": "z next to alpha = 1/2 must be ~0 and non-negative"})
        elif u[0] == "ztail":
            nd = NormalDist()
            for e in range(1, 301):
                for m in (1.0, 2.5, 5.0):
                    a = m * 10.0**-e
                    n_eval += 1
                    try:
                        z = stats.probit(a)
                    except Exception as ex:  # noqa
                        viol.append({"kind": "z:raises", "case": {"alpha": repr(a)}, "observed": f"{type(ex).__name__}: {ex}"})
                        continue
                    zt = abs(nd.inv_cdf(a))
                    outs.add(z)
                    if not (z >= zt * (1 - 1e-12)):
                        viol.append({"kind": "z:conservative", "case": {"alpha": repr(a)}, "observed": repr(z), "why": f"z must be >= the true normal quantile {zt!r}"})
    return {"cov": {"evaluations": n_eval, "violating_cases": len(viol)}, "viol": viol[:10], "outcomes": list(outs)[:4000]}


def run(res, tier):
    bits = 15 if tier == "quick" else 23
    step = 1 << 11
    units = [("ci", m, p) for m in METHODS for p in PS] + [("unknown",), ("ztail",), ("zpairs",), ("spelling", "fwd"), ("spelling", "rev"), ("threads", 2 if tier == "quick" else 3)]
    units += [("z", lo, min(lo + step, 1 << bits), bits) for lo in range(1, 1 << bits, step)]
    for w in pmap(_work, permuted(units, "c18"), chunk=2):
        res.merge_worker(w)
    # the same contract with asserts / `if __debug__:` compiled out (python -O, -OO)
    from ..common import run_in_flagged_child

    sub = [["unknown"], ["zpairs"], ["ci", "wald", 0.5], ["ci", "agresti-coull", 0.1]]
    for flags in (("-O",), ("-OO",)):
        r = run_in_flagged_child("mc.checks.c18", "_work", sub, flags)
        res.add("evaluations", r["cov"]["evaluations"])
        for v in r["viol"]:
            v["interpreter_flags"] = list(flags)
            res.violation(v)
        res.outcomes.add(("flags", flags))
    res.set("distinct_nontrivial", len(res.outcomes))
    res.set("bounds", {"n_values": len(NS), "p_values": len(PS), "confidences": len(CONFS), "alpha_grid_bits": bits})
    try:
        res.sample({"n": 10, "p": 0.5, "confidence": 0.95, "method": "agresti-coull", "interval": stats.confidence_interval(10, 0.5, 0.95)})
        res.sample({"alpha": 0.025, "z": stats.probit(0.025), "true_quantile": abs(NormalDist().inv_cdf(0.025))})
    except Exception:  # noqa  (a broken helper has been reported above; the sample is only illustration)
        pass
    res.assumptions += ["statistics.NormalDist.inv_cdf is accurate to 1e-12 relative",
                        "near alpha=1/2 log(alpha/(1-alpha)) is ill-conditioned: 'never smaller' is granted 4 eps sqrt(pi/8) absolute slack"]  # fmt: skip


def replay(data):
    out = None
    k = data["kind"]
    c = data["case"]
    if k == "ci:threads":
        r = _work([("threads", data.get("bound", 2))])
        return bool(r["viol"]), (r["viol"][0]["why"] if r["viol"] else "every interleaving gives the textbook values")
    if k == "ci:spelling":
        r = _work([("spelling", c.get("order", "fwd"))])
        return bool(r["cov"]["violating_cases"]), f"{r['cov']['violating_cases']} calls of the spelling sequence disagree with the textbook value of their own arguments"
    if k.startswith("ci") and not data.get("interpreter_flags"):
        u = [("ci", c["method"], c["p"])] if k != "ci:unknown-method" else [("unknown",)]
        r = _work(u)
        bad = r["cov"]["violating_cases"]
        return bool(bad), f"{bad} violating grid points for method={c['method']} p={c.get('p')}"
    if data.get("interpreter_flags"):
        from ..common import run_in_flagged_child

        u = [["unknown"]] if k == "ci:unknown-method" else ([["ci", c["method"], c["p"]]] if k.startswith("ci") else [["zpairs"]])
        r = run_in_flagged_child("mc.checks.c18", "_work", u, tuple(data["interpreter_flags"]))
        return bool(r["viol"]), f"under {data['interpreter_flags']}: {len(r['viol'])} violations"
    a = float(c["alpha"])
    z = stats.probit(a)
    zt = abs(NormalDist().inv_cdf(a))
    if k == "z:conservative":
        return (not (z >= zt - 4 * EPS * C - 1e-12 * zt)), f"z={z!r} true={zt!r}"
    z2 = stats.probit(1 - a)
    return abs(z - z2) > C * (8 * EPS + 8 * EPS * abs(math.log(a / (1 - a)))), repr((z, z2))
