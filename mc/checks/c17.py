"""C17 - concurrent compilation and evaluation are thread-safe.

Stateless exploration (mc/xsched.py) of the real code under a controlled scheduler:
  H1  2-3 threads each construct an evaluator (different texts, two of them with the same
      experiment name, sources with single- and multi-line block comments) and evaluate;
  H2  shared evaluator on A: T0 recompile(B); T1 calls twice;
  H3  shared evaluator on A: both threads recompile(B), then call;
  H4  shared evaluator on A: T0 recompile(B) / T1 recompile(C), each then recompiles its own
      text again and calls.
Oracle: per-thread results equal the sequential reference (H1); the recorded call/return
history is linearizable w.r.t. the sequential evaluator model (H2-H4), checked by brute force;
after all threads are joined the evaluator is probed again (it must behave like a fresh evaluator
of the text the linearization ends with)."""
from __future__ import annotations

import os

from .. import impl, xsched
from ..common import HarnessFault, pmap, permuted, quiet, short

LEVEL = "model_checking"
RULE = ("states = scheduling points visited; transitions = complete schedules (thread interleavings) executed on the "
        "real code under the controlled scheduler; every schedule's recorded history is checked against the sequential "
        "model (linearizability by brute force) - traces_validated_against_impl counts them")  # fmt: skip

def _groups(prefix, n=16):
    return ", ".join(f'"{prefix}{i}" weighted 1' for i in range(n))


# every return has 16 equal groups, so that each probe input's result reveals its hash position
A = ('/* exp A\n   multi-line */ def exp { salt: "sa" /* c1 */ /* c2 */ splitters: uid\n if f == 1 { return ' + _groups("A") +
     ' } // tail\n else { return ' + _groups("a") + ' } }')
B = 'def exp { /* B */ splitters: uid return ' + _groups("B") + ' /* end\n */ }'
C = '// other\ndef other { salt: "sc" splitters: uid if f in (1, 2) { return ' + _groups("C") + ' } }'
TA = '/* c */ def exp { splitters: uid return "TA" weighted 1 }'
TB = 'def exp { /* d\n */ splitters: uid return "TB" weighted 1 }'
TC = 'def oth { splitters: uid return "TC" weighted 1 // e\n }'
# texts that are refused AFTER parsing (code generation / compile / exec stage) and before it
BAD_PY = 'def class { splitters: uid return "P" weighted 1 }'
BAD_KW = 'def exp { splitters: kwargs, uid return "P" weighted 1 }'
BAD_SYN = 'def exp { splitters: uid return "S" weighted }'
W1 = 'def w1 { splitters: uid return "p" weighted 1, "q" weighted 1, "r" weighted 1 }'
W2 = 'def w2 { splitters: uid return "only" weighted 9 }'
BAD = {"BAD_PY": BAD_PY, "BAD_KW": BAD_KW, "BAD_SYN": BAD_SYN}
def _nested(tag, d):
    """d nested ifs; the predicates use every comparison and boolean operator in turn (tables filled lazily per operator)
    and are true exactly when f<k> == 1"""
    forms = ["f{k} == 1", "not f{k} != 1", "f{k} in (1, 7)", "f{k} not in (0, 2)", "f{k} >= 1 and f{k} <= 1", "f{k} > 0 or f{k} < 0", "not (f{k} < 1)", "1 == f{k}"]
    c = f'return "{tag}" weighted 1'
    for k in reversed(range(d)):
        c = f'if {forms[k % len(forms)].format(k=k)} {{ {c} }} else {{ return "{tag}e{k}" weighted 1 }}'
    return f"def exp_{tag} {{ splitters: uid {c} }}"


# deeper than anything else this process compiles (tables that grow on demand: by depth, by size)
NA, NB = _nested("NA", 18), _nested("NB", 19)
TEXTS = {"A": A, "B": B, "C": C, "TA": TA, "TB": TB, "TC": TC, "NA": NA, "NB": NB}
MODSETS = {"core": xsched.CORE_MODULES, "deep": xsched.DEEP_MODULES, "gen": ["pyab_experiment.codegen.python.python_generator"],
           "models": ["pyab_experiment.data_structures.syntax_tree", "pyab_experiment.language.grammar"]}
INPUTS = [{"uid": 1, "f": 1}, {"uid": "x", "f": 0}, {"uid": 7, "f": 2}]
TABLE = {}


def _inputs_for(k):
    if k in ("NA", "NB"):
        return [dict({f"f{j}": 1 for j in range(20)}, uid=1), dict({f"f{j}": (1 if j < 9 else 0) for j in range(20)}, uid=1), dict({f"f{j}": 0 for j in range(20)}, uid=1)]
    return INPUTS


def _tables():
    out = {}
    for k, t in TEXTS.items():
        b = impl.build(t)
        if b[0] != "ok":
            raise HarnessFault(f"harness text {k} does not compile sequentially: {b}")
        out[k] = [norm(impl.call(b[1], x)) for x in _inputs_for(k)]
    return out


def prepare():
    """sequential reference results, computed in a forked child: this process never runs library code"""
    if TABLE:
        return
    from ..xlife import in_child

    TABLE.update(in_child(_tables))
    if len({repr(TABLE[k]) for k in ("A", "B", "C")}) < 3:
        raise HarnessFault("harness texts are not distinguishable on the probe inputs")
    for k in ("A", "B", "C"):
        if len({repr(r) for r in TABLE[k]}) < len(INPUTS):
            raise HarnessFault(f"probe inputs of text {k} do not have pairwise distinct outcomes: {TABLE[k]}")


def norm(out):
    return out[:2] if out[0] == "exc" else out


def model(state, op):
    if op[0] == "recompile" and op[1] in BAD:
        return state, ("raise",)
    if op[0] == "recompile":
        return op[1], ("ok",)
    if op[0] == "new":
        return state, ("ok",)
    return state, TABLE[state][op[1]]


def op_call(ex, tid, ev, xi):
    ex.inv(tid, ("call", xi))
    r = norm(impl.call(ev, INPUTS[xi]))
    ex.res(tid, ("call", xi), r)
    return r


def op_recompile(ex, tid, ev, key):
    ex.inv(tid, ("recompile", key))
    try:
        ev.recompile(BAD[key] if key in BAD else TEXTS[key])
        r = ("ok",)
    except xsched.Deadlock:
        raise
    except Exception as e:  # noqa
        r = ("raise",) if key in BAD else ("raise", type(e).__name__)
    ex.res(tid, ("recompile", key), r)


def harness(name):
    """-> make_bodies for xsched.run_schedule"""
    if name.startswith("H1"):
        keys = ["TA", "TB"] if name == "H1t" else (["NA", "NB"] if name == "H1n" else ["A", "B", "C"][: int(name[2:] or 2)])

        def make():
            ctx = {"results": {}, "kind": "H1", "keys": keys}

            def body(k):
                def run(ex, tid):
                    b = impl.build(TEXTS[k])
                    if b[0] != "ok":
                        ctx["results"][tid] = ("build", b[1:])
                        return
                    ctx["results"][tid] = [norm(impl.call(b[1], x)) for x in _inputs_for(k)]

                return run

            return [body(k) for k in keys], ctx

        return make
    if name == "H2":
        def make():
            ev = impl.ExperimentEvaluator(A)
            ctx = {"kind": "lin", "ev": ev}
            return [lambda ex, tid: op_recompile(ex, tid, ev, "B"),
                    lambda ex, tid: (op_call(ex, tid, ev, 0), op_call(ex, tid, ev, 0), op_call(ex, tid, ev, 1))], ctx  # fmt: skip

        return make
    if name == "H3":
        def make():
            ev = impl.ExperimentEvaluator(A)
            ctx = {"kind": "lin", "ev": ev}

            def body(ex, tid):
                op_recompile(ex, tid, ev, "B")
                op_call(ex, tid, ev, 0)

            return [body, body], ctx

        return make
    if name.startswith("H6"):
        # W distinct sources compiled beforehand (fills any bounded cache keyed by source), then T0 rebuilds the
        # oldest of them while T1 builds a new one
        W = int(name[3:])
        from . import c11

        def make():
            for i in range(W):
                impl.ExperimentEvaluator(c11.long_text(i))
            ctx = {"results": {}, "kind": "H6", "texts": [c11.long_text(0), c11.long_text(100000)]}

            def body(text):
                def run(ex, tid):
                    b = impl.build(text)
                    ctx["results"][tid] = ("build", b[1:]) if b[0] != "ok" else [norm(impl.call(b[1], {"uid": u})) for u in (1, "x", 7)]

                return run

            return [body(t) for t in ctx["texts"]], ctx

        return make
    if name == "H5":
        # evaluation only: two threads call one shared evaluator with different units
        def make():
            ev = impl.ExperimentEvaluator(A)
            ctx = {"kind": "lin", "ev": ev}
            return [lambda ex, tid: (op_call(ex, tid, ev, 0), op_call(ex, tid, ev, 0), op_call(ex, tid, ev, 1)),
                    lambda ex, tid: (op_call(ex, tid, ev, 2), op_call(ex, tid, ev, 2), op_call(ex, tid, ev, 1))], ctx  # fmt: skip

        return make
    if name.startswith("H7"):
        # shared evaluator on TA: T0 is given a text that is refused (H7a/b: after parsing, H7c: by the parser) and carries on;
        # T1 recompiles to a valid text.  Nothing a refused recompile leaves behind (a lock still held, a half-written table)
        # may stop or disturb the other thread - a thread that can never finish is reported as a deadlock by the scheduler
        bad = {"H7a": "BAD_PY", "H7b": "BAD_KW", "H7c": "BAD_SYN"}[name]

        def make():
            ev = impl.ExperimentEvaluator(TA)
            ctx = {"kind": "lin", "ev": ev, "init": "TA", "epilogue": True}

            def t0(ex, tid):
                op_recompile(ex, tid, ev, bad)
                op_call(ex, tid, ev, 0)
                op_recompile(ex, tid, ev, bad)

            def t1(ex, tid):
                op_recompile(ex, tid, ev, "TB")
                op_call(ex, tid, ev, 0)

            return [t0, t1], ctx

        return make
    if name == "H5w":
        # evaluation only, two evaluators with DIFFERENT weight vectors (and group counts) evaluated at the same time: nothing
        # that one call computes (running totals, scratch buffers) may be visible to the other
        def make():
            evs = [impl.ExperimentEvaluator(W1), impl.ExperimentEvaluator(W2)]
            ctx = {"results": {}, "kind": "H5w"}

            def body(j):
                def run(ex, tid):
                    ctx["results"][tid] = [norm(impl.call(evs[j], {"uid": u})) for u in (1, "x")]

                return run

            return [body(0), body(1)], ctx

        return make
    if name == "H4t":
        # H4 on tiny texts (used when exploration escalates to line points inside SLY)
        def make():
            ev = impl.ExperimentEvaluator(TA)
            ctx = {"kind": "lin", "ev": ev, "init": "TA", "epilogue": True}

            def body(key):
                def run(ex, tid):
                    op_recompile(ex, tid, ev, key)
                    op_call(ex, tid, ev, 0)

                return run

            return [body("TB"), body("TC")], ctx

        return make
    if name == "H4":
        def make():
            ev = impl.ExperimentEvaluator(A)
            ctx = {"kind": "lin", "ev": ev, "epilogue": True}

            def body(key):
                def run(ex, tid):
                    op_recompile(ex, tid, ev, key)
                    op_recompile(ex, tid, ev, key)
                    op_call(ex, tid, ev, 0)

                return run

            return [body("B"), body("C")], ctx

        return make
    raise KeyError(name)


def check(ex, ctx):
    if ex.errors:
        return {"kind": "sched:error", "why": f"a thread died: {ex.errors}"}
    if ctx["kind"] == "H6":
        from .. import oracle
        from ..ref import parse as rp

        for tid, text in enumerate(ctx["texts"]):
            got = ctx["results"].get(tid)
            a = rp.parse(text)
            want = [oracle.expected(a, {"uid": u}) for u in (1, "x", 7)]
            bad = not isinstance(got, list) or any(oracle.agree(g, w) for g, w in zip(got, want))
            if bad:
                return {"kind": "sched:H6", "why": f"thread {tid} constructing {text[:60]!r} after many other sources were compiled: results {short(repr(got), 200)}"}
        return None
    if ctx["kind"] == "H5w":
        from .. import oracle
        from ..ref import parse as rp

        for tid, text in enumerate((W1, W2)):
            a = rp.parse(text)
            got = ctx["results"].get(tid)
            want = [oracle.expected(a, {"uid": u}) for u in (1, "x")]
            if not isinstance(got, list) or any(oracle.agree(g, w) for g, w in zip(got, want)):
                return {"kind": "sched:H5w", "why": f"thread {tid} evaluating {text[:50]!r} while another thread evaluates an experiment with other weights: {short(repr(got), 200)}"}
        return None
    if ctx["kind"] == "H1":
        for tid, k in enumerate(ctx["keys"]):
            got = ctx["results"].get(tid)
            if got != TABLE[k]:
                return {"kind": "sched:H1", "why": f"thread {tid} constructing text {k}: results {short(repr(got), 160)}; sequentially {short(repr(TABLE[k]), 160)}"}
        return None
    try:
        return _check_lin(ex, ctx)
    except xsched.Deadlock as e:
        return {"kind": "sched:deadlock", "why": f"after all threads were joined the evaluator can no longer be used: {e}"}


def _check_lin(ex, ctx):
    ops = xsched.history_ops(ex)
    # after the join: probe the evaluator; the probe is one more sequential op
    ev = ctx["ev"]
    with quiet():
        final = [norm(impl.call(ev, x)) for x in INPUTS]
    t_end = ex.clock + 10
    for xi, r in enumerate(final):
        ops.append({"tid": -1, "op": ("call", xi), "inv": t_end + 2 * xi, "res": t_end + 2 * xi + 1, "value": r})
    # sequential epilogue after the join: back to the initial text, then to another one - each must take effect
    # (a snapshot of "the previous version" taken across a concurrent recompile would resurface here)
    init = ctx.get("init", "A")
    t = t_end + 2 * len(final) + 2
    for key in ((init, "B" if init != "B" else "A", init) if ctx.get("epilogue") else ()):
        if key not in TABLE:
            continue
        with quiet():
            try:
                ev.recompile(TEXTS[key])
                r = ("ok",)
            except xsched.Deadlock:
                raise
            except Exception as e:  # noqa
                r = ("raise", type(e).__name__)
            probe = [norm(impl.call(ev, x)) for x in INPUTS]
        ops.append({"tid": -1, "op": ("recompile", key), "inv": t, "res": t + 1, "value": r})
        for xi, pr in enumerate(probe):
            ops.append({"tid": -1, "op": ("call", xi), "inv": t + 2 + 2 * xi, "res": t + 3 + 2 * xi, "value": pr})
        t += 4 + 2 * len(probe)
    if not xsched.linearizable(ops, init, model):
        hist = [(o["tid"], o["op"], o["value"], o["inv"], o["res"]) for o in ops]
        return {"kind": "sched:linearizability", "why": "no sequential order of the operations explains the results", "history": short(repr(hist), 900)}
    return None


ISOLATE = [False]  # set when the library keeps state at module level: every schedule runs in a forked child

PLAN = {
    # name -> list of (harness, mode, modules, bound, cap)
    "quick": [("H2", "attr", "core", 99, None), ("H3", "attr", "core", 99, None), ("H4", "attr", "core", 3, None),
              ("H12", "line", "core", 1, None), ("H2", "line", "core", 2, None), ("H3", "line", "core", 2, None), ("H4", "line", "core", 1, None),
              ("H5", "line", "core", 2, None), ("H6_16", "line", "core", 1, None), ("H6_64", "line", "core", 1, None), ("H6_128", "line", "core", 1, None),
              # always: function-entry points inside the vendored lexer / parser / models / generator (state shared through a CLASS
              # attribute or a module global leaves no shared instance behind and restores itself, so nothing would trigger the escalation)
              ("H1t", "call", "deep", 1, None), ("H4t", "call", "deep", 1, None),
              # always as well: every single preemption between two LINES of the vendored lexer / parser / models / generator on tiny
              # texts - a check-then-act on a thread-safe module-level container (a pool of spare tokens: empty() then get_nowait())
              # has no function entry between the two steps and leaves no shared instance behind
              ("H1t", "line", "deep", 1, None), ("H4t", "line", "deep", 1, None),
              # every single preemption between two BYTECODES of the evaluator / wrapper / binning modules (two stores written on one line)
              ("H7a", "attr", "core", 99, None), ("H7b", "attr", "core", 99, None), ("H7c", "attr", "core", 99, None), ("H7a", "line", "core", 1, None),
              # two deeply nested sources (deeper than anything compiled before) at every line of the code generator and of the models
              ("H1n", "line2", "gen", 1, None), ("H1n", "line2", "models", 1, None), ("H5w", "line", "core", 2, None), ("H5w", "instr", "core", 1, None),
              ("H2", "instr", "core", 1, None), ("H3", "instr", "core", 1, None), ("H4", "instr", "core", 1, None), ("H5", "instr", "core", 1, None)],
    "thorough": [("H2", "attr", "core", 99, None), ("H3", "attr", "core", 99, None), ("H4", "attr", "core", 99, None),
                 ("H12", "line", "core", 2, None), ("H13", "line", "core", 2, None), ("H2", "line", "core", 3, None), ("H3", "line", "core", 3, None),
                 ("H4", "line", "core", 2, None), ("H5", "line", "core", 3, None), ("H2", "instr", "core", 2, None), ("H3", "instr", "core", 2, None),
                 ("H5", "instr", "core", 2, None), ("H12", "instr", "core", 1, None), ("H4", "instr", "core", 2, None), ("H7a", "attr", "core", 99, None), ("H7b", "attr", "core", 99, None), ("H7c", "attr", "core", 99, None),
                 ("H7a", "line", "core", 2, None), ("H7b", "line", "core", 2, None), ("H1n", "line", "gen", 1, None), ("H1n", "line", "models", 1, None), ("H1n", "call", "deep", 2, None), ("H5w", "line", "core", 3, None), ("H5w", "instr", "core", 2, None),
                 ("H6_16", "line", "core", 2, None), ("H6_32", "line", "core", 1, None), ("H6_64", "line", "core", 2, None), ("H6_100", "line", "core", 1, None),
                 ("H6_128", "line", "core", 2, None), ("H6_256", "line", "core", 1, None), ("H6_512", "line", "core", 1, None), ("H6_1024", "line", "core", 1, None),
                 ("H1t", "call", "deep", 2, None), ("H4t", "call", "deep", 2, None), ("H12", "call", "deep", 1, None), ("H1t", "line", "deep", 1, None)],
}  # fmt: skip


def _work(units):
    prepare()
    out = {"cov": {}, "viol": [], "outcomes": [], "samples": [], "known": {}}
    for (hname, mode, mods, bound, cap, prefix) in units:
        stats = {}
        if "@" in mode:  # function-entry granularity: every unit carries the stride its prefix was recorded with
            mode, stride = mode.split("@")
            xsched.CALL_STRIDE[0] = int(stride)
        modules = MODSETS[mods]
        xsched.VISITS_MAX[0] = int(mode[len(mode.rstrip("0123456789")):] or 0)
        with xsched.Instrument(mode.rstrip("0123456789"), modules) as ins:
            v = xsched.explore(harness(hname), check, bound, prefix=prefix, stats=stats, cap=cap, isolate=ISOLATE[0])
            shared = ins.shared_instances()
        for k, n in stats.items():
            if isinstance(n, bool):
                out["cov"][k] = 1
            elif k == "max_points":
                pass
            else:
                out["cov"][k] = out["cov"].get(k, 0) + n
        if shared:
            out["cov"]["shared_sly_instances"] = out["cov"].get("shared_sly_instances", 0) + len(shared)
        for x in v:
            x.update({"harness": hname, "mode": mode, "modules": mods, "stride": xsched.CALL_STRIDE[0]})
            out["viol"].append(x)
            out["cov"]["violating_cases"] = out["cov"].get("violating_cases", 0) + 1
        out["outcomes"].append(f"{hname}:{mode}:{bound}")
    return out


def _probe(entry):
    """(in a forked child) default schedule twice + module-level fingerprint before / after"""
    from ..xlife import global_fingerprint

    hname, mode, mods, bound, cap = entry
    modules = MODSETS[mods]
    mode = mode.rstrip("0123456789")
    stride = 1
    if mode == "call":
        # choose the stride so that the default schedule has a few hundred points (measured in a throw-away child)
        from ..xlife import in_child

        def count():
            xsched.CALL_STRIDE[0] = 10**9
            with xsched.Instrument(mode, modules):
                ex0, _ = xsched.run_schedule(harness(hname), [])
            return max(ex0.callcount.values() or [1])

        stride = max(1, in_child(count) // 150)
        xsched.CALL_STRIDE[0] = stride
    fp0 = global_fingerprint()
    with xsched.Instrument(mode, modules) as ins:
        ex, _ = xsched.run_schedule(harness(hname), [])
        fp1 = global_fingerprint()
        ex2, _ = xsched.run_schedule(harness(hname), [p[3] for p in ex.points])
        shared = ins.shared_instances()
    return {"points": [tuple(p) for p in ex.points], "fault": ex.fault or ex2.fault, "fp_changed": fp0 != fp1,
            "reproducible": [p[:3] for p in ex.points] == [p[:3] for p in ex2.points], "shared": shared, "stride": stride}  # fmt: skip


def plan_units(res, entry):
    """default schedule once (in a forked child, twice: replay determinism), then one unit per first deviation"""
    from ..xlife import in_child

    hname, mode, mods, bound, cap = entry
    pr = in_child(lambda: _probe(entry))
    if pr["fault"]:
        raise HarnessFault(f"{hname}/{mode}: {pr['fault']}")
    if pr["fp_changed"] or not pr["reproducible"]:
        # the library keeps state at module level: executions are only independent in separate process images
        ISOLATE[0] = True
        res.set("isolated_mode", f"{hname}/{mode}: module-level state changed={pr['fp_changed']}, same schedule reproducible in one process={pr['reproducible']}")
    if pr["shared"]:
        res.add("shared_sly_instances", len(pr["shared"]))
    if mode == "call":
        xsched.CALL_STRIDE[0] = pr["stride"]  # inherited by the pool workers
        res.set(f"call_stride/{hname}", pr["stride"])
    points = pr["points"]
    res.set(f"points_default_schedule/{hname}/{mode}/{mods}", len(points))
    choices = [p[3] for p in points]
    umode = f"{mode}@{pr['stride']}" if mode == "call" else entry[1]
    units = [(hname, umode, mods, bound, cap, "ROOT")]
    # "line2": the first deviation is taken only at the first 2 visits of every (thread, line) - loops and recursive descents
    # visit the same line hundreds of times; state that is built lazily is built at the first visits
    visits_max = int(mode[len(mode.rstrip("0123456789")):] or 0)
    seen = {}
    for i, (_t, _l, n_en, _c, is_exit, _g) in enumerate(points):
        cost = xsched.preemptions(points, i) + (0 if is_exit else 1)
        if cost > bound:
            continue
        if visits_max:
            seen[(_t, _l)] = seen.get((_t, _l), 0) + 1
            if seen[(_t, _l)] > visits_max and not is_exit:
                continue
        for alt in range(1, n_en):
            units.append((hname, umode, mods, bound, cap, tuple(choices[:i] + [alt])))
    return units


ESCALATION = {"quick": [("H1t", "line", "deep", 2, 40)],
              "thorough": [("H4t", "line", "deep", 1, None), ("H12", "line", "deep", 1, None), ("H1t", "line", "deep", 2, 40)]}


def run(res, tier):
    prepare()
    units = []
    for entry in PLAN[tier]:
        units += plan_units(res, entry)
    for w in pmap(_work_split, permuted(units, "c17"), chunk=1, inline_ok=False):
        res.merge_worker(w)
        if len(res.violations) >= 12:
            break
    if not res.violations and (res.cov.get("shared_sly_instances") or ISOLATE[0] or os.environ.get("VERIF_C17_ESCALATE")):
        res.set("escalated", True)
        units = []
        for entry in ESCALATION[tier]:
            units += plan_units(res, entry)
        for w in pmap(_work_split, permuted(units, "c17e"), chunk=4, inline_ok=False):
            res.merge_worker(w)
            if len(res.violations) >= 12:
                break
    if tier == "thorough" or os.environ.get("VERIF_TLC"):
        tlc_calibration(res)
    res.set("states", res.cov.get("points", 0))
    res.set("transitions", res.cov.get("schedules", 0))
    res.set("traces_validated_against_impl", res.cov.get("schedules", 0))
    res.set("plan", [list(p) for p in PLAN[tier]])
    res.sample({"harness": "H3", "threads": 2, "bodies": "recompile(B); call(x0)", "oracle": "linearizability vs sequential evaluator model"})
    res.assumptions += ["CPython's GIL makes one bytecode atomic; C-level state (hashlib, re, pydantic-core) has no Python-visible sharing",
                        "lexer / parser / code generator instances are thread-confined (measured on every schedule: shared_sly_instances must be 0, otherwise exploration escalates to line points inside sly/ language/ codegen/), so their steps commute and need no scheduling points"]  # fmt: skip


def tlc_calibration(res):
    """cross-check the explorer's schedule enumeration against TLC (see mc/tlc_calib.py)"""
    from .. import tlc_calib

    for hname, mode, bound in (("H2", "attr", 99), ("H2", "line", 2), ("H12", "line", 1)):
        stats = {"owner_seqs": []}
        args = (mode, xsched.CORE_MODULES)
        with xsched.Instrument(*args):
            v = xsched.explore(harness(hname), check, bound, stats=stats)
        for x in v:
            res.violation(dict(x, harness=hname, mode=mode, modules="core"))
        facts, viol = tlc_calib.calibrate(harness(hname), check, args, bound, stats["owner_seqs"])
        if viol:
            res.violation(dict(viol, harness=hname, mode=mode, modules="core"))
        res.set(f"tlc_calibration/{hname}/{mode}/bound{bound}", facts)
        res.add("schedules", stats.get("schedules", 0) + facts.get("tlc_paths_replayed_on_impl", 0))
        res.add("points", stats.get("points", 0))
        res.add("tlc_paths_replayed_on_impl", facts.get("tlc_paths_replayed_on_impl", 0))


def _work_split(units):
    fixed = []
    for u in units:
        hname, mode, mods, bound, cap, prefix = u
        if prefix == "ROOT":
            # the default schedule itself (no children: they are separate units)
            fixed.append((hname, mode, mods, -1, 1, ()))
        else:
            fixed.append((hname, mode, mods, bound, cap, prefix))
    return _work(fixed)


def replay(data):
    prepare()
    modules = MODSETS[data.get("modules", "core")]
    xsched.CALL_STRIDE[0] = data.get("stride", 1)
    if "@" in data["mode"]:
        data = dict(data, mode=data["mode"].split("@")[0], stride=int(data["mode"].split("@")[1]))
        xsched.CALL_STRIDE[0] = data["stride"]
    with xsched.Instrument(data["mode"].rstrip("0123456789"), modules):
        ex, ctx = xsched.run_schedule(harness(data["harness"]), data["schedule"])
        if ex.fault:
            return False, f"schedule no longer replays: {ex.fault}"
        v = check(ex, ctx)
    return v is not None, (v["why"] if v else "schedule is fine")
