"""Deep (thorough-tier) value families for splitter fields, and a fast exact comparison.

Every family is a complete, deterministic enumeration of a stated set (never a sample):

  cp      every Unicode scalar value as a one-character string            (1 112 064 values)
  str3    every string of length 0..3 over a 14-character hostile alphabet    (2 955 values)
  ints    every int in [-4096, 4096], +-(2^k + d) for k = 0..4200, d in {-1,0,1},
          +-10^k for k = 0..4299 (CPython's str() digit limit), +-(m 10^k + d) next to the
          largest printable powers of ten                                   (~44 000 values)
  floats  every binary64 whose mantissa is one of 16 top-nibble patterns (plus all-ones and lowest bit)
          for every sign and every one of the 2048 exponents                 (73 728 values)
  lens    'q' * n for every n in 0..4500 and around every multiple of 64 up to 2^17 (md5 block
          boundaries, windowed/truncated hashing)                            (~10 000 values)

Programs are `n` equal integer weights, for which the binary64 computation of the implementation is
exact (k / 2^32 * n needs < 53 bits), so the expected group is floor(k * n / 2^32) with no tolerance;
a mismatch is still re-judged by the full oracle before it is reported.
"""
from __future__ import annotations

import struct

from . import impl, oracle
from .common import enc, short
from .ref import parse as rp
from .ref import sem

HOSTILE = ["a", "1", "é", "\x00", "'", '"', "\\", "\n", " ", "𝒳", "́", "%", "{", "﻿"]
FAMILIES = ["cp", "str3", "ints", "floats", "lens"]
CHUNKS = {"cp": 68, "str3": 1, "ints": 4, "floats": 6, "lens": 8}


def family(name: str, chunk: int):
    """the chunk-th slice (of CHUNKS[name]) of the family, as a list"""
    n = CHUNKS[name]
    if name == "cp":
        lo, hi = chunk * 0x4000, (chunk + 1) * 0x4000
        return [chr(c) for c in range(lo, min(hi, 0x110000)) if not 0xD800 <= c <= 0xDFFF]
    if name == "str3":
        out = [""]
        for a in HOSTILE:
            out.append(a)
            for b in HOSTILE:
                out.append(a + b)
                for c in HOSTILE:
                    out.append(a + b + c)
        return out
    if name == "ints":
        if chunk == 0:
            return list(range(-4096, 4097))
        if chunk == 1:
            return [s * ((1 << k) + d) for k in range(0, 4201) for d in (-1, 0, 1) for s in (1, -1)]
        if chunk == 2:
            return [10**k for k in range(0, 4300)]
        # negative powers of ten, and values just beside large powers of ten (block-wise / divmod printing of huge ints)
        return [-(10**k) for k in range(0, 4299)] + [sg * (m * 10**k + d) for k in range(3890, 4298, 3) for m in (1, 3) for d in (-1, 1, 12345) for sg in (1, -1)]
    if name == "floats":
        mant = [m << 48 for m in range(16)] + [(1 << 52) - 1, 1]
        out = []
        exps = range(chunk * 2048 // n, (chunk + 1) * 2048 // n)
        for sign in (0, 1):
            for e in exps:
                for m in mant:
                    out.append(struct.unpack(">d", struct.pack(">Q", (sign << 63) | (e << 52) | m))[0])
        return out
    if name == "lens":
        ns = sorted(set(range(0, 4501)) | {64 * j + d for j in range(70, 2049) for d in (-1, 0, 1)})
        return ["q" * k for k in ns[chunk::n]]
    raise KeyError(name)


def units(families=FAMILIES):
    return [(f, c) for f in families for c in range(CHUNKS[f])]


def groups(n):
    return tuple((f"g{i}", "1") for i in range(n))


def check_family(acc, kind, salt, fields, n_groups, values, others=None):
    """One program `fields` x `n_groups` equal weights; the first field takes every value of `values`,
    the remaining fields the constants in `others`.  -> number of distinct groups observed."""
    ast = ("prog", "e", salt, tuple(fields), ("ret", groups(n_groups)))
    text = rp.render(ast)
    acc.add("programs")
    b = impl.build(text)
    if b[0] != "ok":
        acc.violation({"kind": kind, "sub": "build", "text": text, "observed": list(b),
                       "expected": "reference grammar accepts this text: a callable evaluator"})  # fmt: skip
        return 0
    ev = b[1]
    others = dict(others or {})
    names = sorted(set(fields))
    seen = set()
    pre = salt or ""
    for v in values:
        acc.add("evaluations")
        env = dict(others)
        env[fields[0]] = v
        out = impl.call(ev, env)
        k = sem.hash_k(pre + "".join(sem._str(env[nm]) for nm in names))
        want = f"g{(k * n_groups) >> 32}"
        if out[0] == "ok" and type(out[1]) is str and out[1] == want:
            seen.add(want)
            continue
        why = oracle.agree(out, oracle.expected(ast, env))
        if why:
            acc.violation({"kind": kind, "sub": "eval", "text": text, "env": enc(env), "observed": short(repr(out)), "why": why})
    acc.outcomes.update(f"ok:{g}" for g in list(seen)[:8])
    return len(seen)
